"""C15 — stream serialization round-trips and never leaves its buffer
(rkcommon/networking/DataStreaming.{h,cpp}; array wrappers as inputs of the stream operators)."""
ID = "C15"
MODULE = "RkVerif.Props.C15"
DRIVER = "drv_c15"
THOROUGH_MODULES = ["RkVerif.Model.C15", "RkVerif.Lemmas.C15"]

HARNESSES = [dict(name="c15", src="harness/c15.cpp", repo_srcs=["rkcommon/networking/DataStreaming.cpp"], timeout=900)]

RULE = ("three families of cases. (A) typed value sequences: 1-7 values over 16 trivially copyable types (all integer widths, "
        "float/double bit patterns, bool, char, three structs), std::string (lengths 0,1,7,8,9,... incl. NUL bytes; const char*), "
        "vector<T> of every element type, vector<string>, nested vectors up to depth 3 (empty ones frequent), arrays through all "
        "four wrappers (OwnedArray, FixedArray, ArrayView, FixedArrayView at an offset) passed both as AbstractArray& and as the "
        "concrete type; written through BufferWriter + WriteSizeCalculator (bytes compared in hex), read back through "
        "BufferReader (values, end(), cursor after every read, one read past the end), then every proper prefix of the byte "
        "stream in an exact-size heap block (index of the read that throws; ASan), then the same values through a "
        "FixedBufferWriter whose capacity is total-1 / total / total+1 / random and back through getWrittenView(); some cases "
        "are large (up to ~12 kB, element-wise writes) so the BufferWriter crosses many growth boundaries. (B) raw write/reserve "
        "histories on FixedBufferWriter: capacities from {0,1,2,3,4,7,8,9,16,33,64,100}, sizes chosen relative to the remaining "
        "space (0, 1, remaining-1, remaining, remaining+1, random) and near 2^64 (2^64-1, 2^64-cursor, 2^64-cursor+k, 2^63), "
        "view/available/capacity observed after every step. (C) raw read/getView histories on a BufferReader with the same size "
        "choices. Thorough tier adds all size sequences of length <= 3 over capacities 0..5. Non-trivial = contains a truncation "
        "sweep, or >= 3 raw writer ops incl. an accepted and a rejected one, or >= 3 raw reader ops incl. a rejected one; "
        "distinct = distinct op sequences")
ASSUMPTIONS = [
    "size_t is 64 bit and little-endian (x86-64); trivially copyable values are identified with their object bytes "
    "(test structs have no padding bytes)",
    "std::vector / std::string / std::shared_ptr / memcpy behave per their specifications; the array wrapper classes deliver "
    "data()/size() of the elements they were built from (property C11)",
    "BufferReader::getView<T> only compiles for byte-sized T (the ArrayView<T> constructor call does not convert uint8_t* to T*), "
    "so the count*sizeof(T) guard is exercised with sizeof(T)=1 and proved for every sizeof(T) >= 1",
    "cursor members are public; histories that assign to them directly are outside the property (the repaired guards still "
    "reject a cursor beyond the buffer)",
    "after a typed operator<< / operator>> has thrown in the middle of a value, how much of that value was transferred is not "
    "observed (the property does not determine it)",
    "typed reads are issued in the order and with the types of the writes, on complete or truncated streams (the property's "
    "quantifier); a read with another type sees garbage length prefixes, for which the library throws std::length_error / "
    "std::bad_alloc out of the container's resize instead of std::runtime_error - not generated, not judged",
]
EXPLAIN = ("observations (bytes produced, values read back, end()/cursor/available()/capacity(), exception or not, ASan/UBSan "
           "report) of the real streams differ from the Lean model for which decode_encode, reader_roundtrip, size_calc_exact, "
           "end_iff_consumed, reader_truncated, guards_sound_*, fixedwriter_accepts_iff_fits, fixedwriter_refines and "
           "fixedwriter_accounting are proved")

W = 1 << 64
SIZES = dict(i8=1, u8=1, b=1, c=1, i16=2, u16=2, i32=4, u32=4, f32=4, i64=8, u64=8, sz=8, f64=8, S3=3, S12=12, S24=24)
ELEM = ["i8", "u8", "c", "i16", "u16", "i32", "u32", "f32", "i64", "u64", "sz", "f64", "S3", "S12", "S24"]
PODS = ELEM + ["b"]
NESTED = ["v(str)", "v(v(str))", "v(v(i32))", "v(v(u8))", "v(v(f64))", "v(v(S12))", "v(v(v(u16)))", "v(v(v(str)))"]
WRAPS = ["owned", "fixed", "view", "fview"]
MODES = ["abs", "conc"]


def _hex(rng, n):
    r = rng.random()
    if r < 0.08:
        return "00" * n
    if r < 0.14:
        return "ff" * n
    return "".join("%02x" % rng.randrange(256) for _ in range(n))


def _strlen(rng, big):
    r = rng.random()
    if r < 0.25:
        return 0
    if r < 0.6:
        return rng.pick([1, 2, 3, 7, 8, 9, 15, 16, 17])
    if big and r > 0.9:
        return rng.randrange(100, 700)
    return rng.randrange(0, 40)


def _veclen(rng, big, pod):
    r = rng.random()
    if r < 0.25:
        return 0
    if r < 0.7:
        return rng.randrange(1, 4)
    if big and pod and r > 0.85:
        return rng.randrange(50, 400)
    return rng.randrange(0, 7)


def gen_value(rng, ty, big=False, cstr=False):
    if ty in SIZES:
        if ty == "b":
            return rng.pick(["00", "01"])
        return _hex(rng, SIZES[ty])
    if ty == "str":
        n = _strlen(rng, big)
        if cstr:
            return "".join("%02x" % rng.randrange(1, 256) for _ in range(n))
        return "s" + _hex(rng, n) if n else "s"
    if ty.startswith("v("):
        inner = ty[2:-1]
        n = _veclen(rng, big, inner in SIZES)
        return "[" + ",".join(gen_value(rng, inner, big) for _ in range(n)) + "]"
    if ty.startswith("a("):
        pod = ty[2:-1].split(",")[0]
        n = _veclen(rng, big, True)
        return "[" + ",".join(_hex(rng, SIZES[pod]) for _ in range(n)) + "]"
    raise ValueError(ty)


def enc_len(ty, val):
    """length of the encoding (python reference, only used to choose capacities / decide on sweeps)"""
    if ty in SIZES:
        return SIZES[ty]
    if ty == "str":
        return 8 + (len(val) - 1) // 2
    if ty.startswith("a("):
        pod = ty[2:-1].split(",")[0]
        return 8 + (0 if val == "[]" else (val.count(",") + 1) * SIZES[pod])
    # vectors: parse
    inner = ty[2:-1]
    total, depth, start, items = 8, 0, 1, []
    if val == "[]":
        return 8
    for i, ch in enumerate(val):
        if ch == "[":
            depth += 1
        elif ch == "]":
            depth -= 1
            if depth == 0:
                items.append(val[start:i])
        elif ch == "," and depth == 1:
            items.append(val[start:i])
            start = i + 1
    return total + sum(enc_len(inner, it) for it in items)


def pick_type(rng):
    r = rng.random()
    if r < 0.22:
        return rng.pick(PODS)
    if r < 0.36:
        return "str"
    if r < 0.52:
        return "v(%s)" % rng.pick(ELEM)
    if r < 0.72:
        return rng.pick(NESTED)
    return "a(%s,%s,%s)" % (rng.pick(ELEM), rng.pick(WRAPS), rng.pick(MODES))


def read_type(rng, ty):
    if ty.startswith("a("):
        pod = ty[2:-1].split(",")[0]
        return ("a(%s)" % pod) if rng.chance(0.6) else ("v(%s)" % pod)
    return ty


def typed_case(rng, big=False):
    c, vals, rtys, total = [], [], [], 0
    for _ in range(rng.randint(1, 7)):
        if rng.chance(0.08):
            hx = gen_value(rng, "str", big, cstr=True)
            c.append("wc " + hx if hx else "wc")
            vals.append(("str", "s" + hx))
            rtys.append("str")
            total += 8 + len(hx) // 2
            continue
        if rng.chance(0.05):
            # a vector of C strings (no NUL inside an element): written element by element through operator<<(const char*)
            strs = ["".join("%02x" % rng.randrange(1, 256) for _ in range(rng.pick([0, 1, 3, 8, 20]))) for _ in range(rng.randint(0, 4))]
            c.append("wvc" + "".join(" " + (x or "-") for x in strs))
            v = "[" + ",".join("s" + x for x in strs) + "]"
            vals.append(("v(str)", v))
            rtys.append("v(str)")
            total += enc_len("v(str)", v)
            continue
        ty = pick_type(rng)
        v = gen_value(rng, ty, big)
        c.append("w %s %s" % (ty, v))
        vals.append((ty, v))
        rtys.append(read_type(rng, ty))
        total += enc_len(ty, v)
    c.append("dump")
    c.append("rd_open bw")
    for t in rtys:
        c.append("r " + t)
    c.append("rd_end")
    c.append("r " + rng.pick(["u8", "str", "v(i32)", "a(u16)", "i64"]))   # one read past the end
    if total <= 1500:
        c.append("trunc_all " + " ".join(rtys))
    else:
        for _ in range(6):
            c.append("rd_open trunc %d" % rng.randrange(total))
            for t in rtys:
                c.append("r " + t)
    # the same values through a FixedBufferWriter and back through its written view
    cap = rng.pick([max(total - 1, 0), total, total, total + 1, rng.randrange(0, total + 9)])
    c.append("fw_new %d" % cap)
    for ty, v in vals:
        c.append("fw_w %s %s" % (ty, v))
    c.append("fw_view")
    c.append("rd_open fw")
    for t in rtys:
        c.append("r " + t)
    c.append("rd_end")
    return c


CAPS = [0, 1, 2, 3, 4, 7, 8, 9, 16, 33, 64, 100]


def pick_size(rng, remaining, cursor):
    r = rng.random()
    if r < 0.10:
        return 0
    if r < 0.20:
        return 1
    if r < 0.34:
        return remaining            # exact fit
    if r < 0.46:
        return remaining + 1        # one byte over
    if r < 0.56:
        return max(remaining - 1, 0)
    if r < 0.86:
        return rng.randrange(0, remaining + 3)
    # near 2^64: the sums cursor+size wrap to 0, to a small value, or stay huge
    return rng.pick([W - 1, (W - cursor) % W, (W - cursor + rng.randrange(0, 4)) % W, W - 2, 1 << 63,
                     (W - cursor - 1) % W, W - rng.randrange(1, 70)])


def fixed_case(rng):
    cap = rng.pick(CAPS)
    c = ["fw_new %d" % cap]
    cur = 0
    for _ in range(rng.randint(3, 16)):
        size = pick_size(rng, cap - cur, cur)
        c.append("%s %d %d" % (rng.pick(["fw_write", "fw_reserve"]), size, rng.randrange(256)))
        if size <= cap - cur:
            cur += size
        if rng.chance(0.25):
            c.append("fw_view")
    c.append("fw_view")
    c.append("rd_open fw")
    c.extend(reader_ops(rng, cur, 4))
    return c


def reader_ops(rng, n, k):
    out, cur = [], 0
    for _ in range(k):
        size = pick_size(rng, n - cur, cur)
        out.append("%s %d" % (rng.pick(["rd_read", "rd_view"]), size))
        if size <= n - cur:
            cur += size
        if rng.chance(0.2):
            out.append("rd_end")
    out.append("rd_end")
    return out


def reader_case(rng):
    n = rng.pick([0, 1, 2, 3, 8, 9, 17, 40])
    c = []
    if n >= 8:
        c.append("w v(u8) [%s]" % ",".join("%02x" % rng.randrange(256) for _ in range(n - 8)))
    else:
        for _ in range(n):
            c.append("w u8 %02x" % rng.randrange(256))
    c.append("rd_open bw")
    c.extend(reader_ops(rng, n, rng.randint(3, 14)))
    return c


def live_case(rng):
    """a reader opened on the BufferWriter's shared array while the writer keeps writing, and a writer that is
    reused after its bytes were moved out: the reader sees what has been written by the time of each call"""
    c = []
    pend = []          # types written and not yet read
    for _ in range(rng.randint(0, 2)):
        ty = rng.pick(PODS + ["str"]) if rng.chance(0.7) else pick_type(rng)
        c.append("w %s %s" % (ty, gen_value(rng, ty, False)))
        pend.append(read_type(rng, ty))
    c.append("rd_open bw")
    for _ in range(rng.randint(4, 14)):
        r = rng.random()
        if r < 0.40:
            ty = rng.pick(PODS + ["str"]) if rng.chance(0.7) else pick_type(rng)
            c.append("w %s %s" % (ty, gen_value(rng, ty, False)))
            pend.append(read_type(rng, ty))
        elif r < 0.75 and pend:
            c.append("r " + pend.pop(0))
        elif r < 0.85:
            c.append("rd_end")
        elif r < 0.90:
            c.append("%s %d" % (rng.pick(["rd_read", "rd_view"]), rng.randrange(0, 5)))
            pend = []      # raw reads desynchronise the typed stream: open a fresh reader
            c.append("bw_take " + rng.pick(["ctor", "assign"]))
            c.append("rd_open bw")
        elif r < 0.95:
            c.append("bw_take " + rng.pick(["ctor", "assign"]))
            c.append("dump")
            c.append("rd_end")
            c.append("rd_open bw")
            pend = []
        else:
            # rewind the writer, write a (usually shorter) message, read it back through a copy of / the moved array
            c.append("bw_rewind")
            c.append("dump")
            pend = []
            for _ in range(rng.randint(1, 2)):
                ty = rng.pick(PODS)
                c.append("w %s %s" % (ty, gen_value(rng, ty, False)))
                pend.append(ty)
            c.append("rd_open " + rng.pick(["copy", "copy", "moved", "bw"]))
            for t in pend:
                c.append("r " + t)
            c.append("rd_end")
            c.append("r u8")
            c.append("bw_rewind")         # start the next message on an empty array again (reads stay type-consistent)
            c.append("rd_open bw")
            pend = []
    for t in pend:
        c.append("r " + t)
    c.append("rd_end")
    c.append("r u8")
    return c


def exhaustive_small():
    """all write/reserve size sequences of length <= 3 against capacities 0..5 (sizes 0..cap+1) and the
    same for reads on buffers of 0..5 bytes"""
    import itertools
    cases = []
    for cap in range(0, 6):
        sizes = list(range(0, cap + 2)) + [W - 1]
        for L in (1, 2, 3):
            for seq in itertools.product(sizes, repeat=L):
                c = ["fw_new %d" % cap]
                for i, s in enumerate(seq):
                    c.append("%s %d %d" % ("fw_write" if (i + cap) % 2 == 0 else "fw_reserve", s, 16 * i + 1))
                c.append("fw_view")
                cases.append(c)
                c = ["w u8 %02x" % (7 * k + 1) for k in range(cap)] + ["rd_open bw"]
                for i, s in enumerate(seq):
                    c.append("%s %d" % ("rd_read" if (i + cap) % 2 == 0 else "rd_view", s))
                c.append("rd_end")
                cases.append(c)
    return cases


def gen_cases(rng, tier, h):
    quick = tier == "quick"
    cases = []
    for _ in range(700 if quick else 6000):
        cases.append(typed_case(rng))
    for _ in range(40 if quick else 300):
        cases.append(typed_case(rng, big=True))
    for _ in range(1100 if quick else 10000):
        cases.append(fixed_case(rng))
    for _ in range(600 if quick else 6000):
        cases.append(reader_case(rng))
    for _ in range(400 if quick else 5000):
        cases.append(live_case(rng))
    if not quick:
        cases.extend(exhaustive_small())
    return cases


def nontrivial(case):
    ops = [l.split() for l in case]
    if any(o[0] == "trunc_all" for o in ops):
        return True
    fwo = [o for o in ops if o[0] in ("fw_write", "fw_reserve")]
    rdo = [o for o in ops if o[0] in ("rd_read", "rd_view")]
    return len(fwo) >= 3 or len(rdo) >= 3


MANIFEST = dict(
    text=("Lean 4 theorems over an executable model of the stream classes and typed stream operators (64-bit wrap-around "
          "explicit, memory accesses outside a buffer a distinct 'fault' outcome): the format round-trips for every well-typed "
          "value of every type incl. nested vectors and all array wrappers (decode_encode), BufferReader reads back exactly what "
          "BufferWriter appended and WriteSizeCalculator counted, end() iff every written byte is consumed, every proper prefix "
          "makes the typed reads throw without any access outside the buffer, the 64-bit guards of read/getView/write/reserve "
          "pass exactly when cursor+size fits as natural numbers (with decide-witnesses that the unrepaired guards do not), and "
          "every write/reserve history on a FixedBufferWriter refines a wrap-free reference (accepted iff it fits, rejected = "
          "no-op, available+written=capacity, written view = accepted bytes); a reader on an array that grows between its calls returns the same bytes for reads that already fitted and sees the appended ones, and one whose cursor lies beyond a shrunk array throws on every read (reader_sees_appended, stale_cursor_throws). The model is tied to the code by running the same "
          "generated op sequences (incl. a reader opened on the writer's live array before further writes, and a writer reused after its bytes were moved out) through the real classes under ASan/UBSan and the compiled model and diffing bytes, values, "
          "cursors and exceptions."),
    note=("Trusted: Lean kernel; axioms propext/Classical.choice/Quot.sound; the hand-written model is tied to the code only by "
          "the correspondence harness (generators + canonicalisation) and the g++/sanitizer runtimes; std::vector/string/"
          "shared_ptr/memcpy and the array wrappers' data()/size() are assumed to meet their specifications; x86-64 object "
          "representation; getView<T> is exercised for byte-sized T only (no other T compiles). Requires fixes/C15-*.patch."),
    technique="Lean 4 proof (structural induction over types/values/histories, simulation between cursor-level and list-level "
              "decoder) + differential correspondence check model vs real code under ASan/UBSan")
