"""C14 — aligned allocation returns aligned, usable, correctly released memory (partial: the system
allocators are a contract that is observed on every run, not proved)."""
ID = "C14"
MODULE = "RkVerif.Props.C14"
DRIVER = "drv_c14"
THOROUGH_MODULES = ["RkVerif.Model.C14", "RkVerif.Lemmas.C14"]

_SRCS = ["rkcommon/memory/malloc.cpp"]
SIZES = (1, 4, 12, 64)
HARNESSES = []
for _sz in SIZES:
    # _mm_malloc back end (ASan sees every block: bounds, double free, leaks)
    HARNESSES.append(dict(name="c14mm", src="harness/c14.cpp", repo_srcs=_SRCS, args=[str(_sz)],
                          driver_args=[str(_sz)], sz=_sz, backend="mm", timeout=150))
    # TBB scalable allocator back end
    HARNESSES.append(dict(name="c14tbb", src="harness/c14.cpp", repo_srcs=_SRCS, flags=["-DRKCOMMON_TASKING_TBB"],
                          libs=["-ltbbmalloc"], args=[str(_sz)], driver_args=[str(_sz)], sz=_sz, backend="tbb", timeout=150))

# RKCOMMON_NO_SIMD is a supported configuration of the library: one more build of the _mm_malloc back end with it
HARNESSES.append(dict(name="c14mm_nosimd", src="harness/c14.cpp", repo_srcs=_SRCS, flags=["-DRKCOMMON_NO_SIMD"], args=["4"],
                      driver_args=["4"], sz=4, backend="mm", timeout=150))

RULE = ("four case kinds per (back end in {_mm_malloc, TBB scalable}) x (sizeof(T) in {1,4,12,64}): "
        "(raw) interleaved alignedMalloc/alignedFree over 8 slots, sizes from a boundary-heavy set (0, 2^k-1, 2^k, 2^k+1 up to 1 MiB, "
        "and sizes near 2^63/2^64) x alignments 1..4096, every live block pattern-filled over its full extent and re-verified after "
        "every free; (arith) isAligned / ALIGN_PTR (power-of-two alignments up to 2^30 / 2^62) on multiples of the alignment +-1 and near 2^64, max_size, operator==, rebind; "
        "(alloc) aligned_allocator::allocate(n) for n in {0, small, max_size-1, max_size, max_size+1, n*sizeof(T) = 2^64 +- small, 2^41+1, 2^63}; "
        "(vec) random histories of push_back/pop_back/resize/reserve/shrink_to_fit/assign/copy-assign/swap/clear/insert/erase/set/release "
        "on two AlignedVectors, element values 0..250, sizes 0..300 plus requests beyond max_size and beyond any allocator; "
        "a case is non-trivial when it has >= 3 allocations (raw/alloc), >= 4 arithmetic queries, or >= 4 operations that can (re)allocate (vec); "
        "distinct = distinct op sequences")
ASSUMPTIONS = [
    "the system allocators (scalable_aligned_malloc/scalable_aligned_free, _mm_malloc/_mm_free = posix_memalign/free) meet the contract SysOK "
    "(null, or a fresh non-null block at a multiple of the requested alignment, usable for the size; free releases exactly that block): "
    "observed by the harness on every run (alignment, apartness, full-extent write/read-back, neighbour patterns after every free, ASan), not proved",
    "std::vector (libstdc++) performs (re)allocation as allocate / copy-construct / deallocate through the allocator and gives the strong "
    "guarantee on failure; its growth policy is arbitrary (any policy with size+extra <= new capacity is covered by the theorems)",
    "a request of >= 2^50 bytes fails on the test machine and a request of <= 16 MiB succeeds",
    "size_t is 64 bit",
]
EXPLAIN = ("observations of the real alignedMalloc/alignedFree/isAligned/ALIGN_PTR/aligned_allocator/AlignedVector (alignment of every returned "
           "pointer and of data(), neighbour patterns after free, length_error vs request size, element values after every operation, live object "
           "and live block counts) differ from the Lean model for which no_mul_overflow, length_error_iff, align_ptr_least_multiple, isAligned_iff, "
           "avec_data_aligned, avec_elements_preserved and avec_no_fault_no_leak are proved")

W = 1 << 64
BSIZES = [0, 1, 2, 3, 4, 7, 8, 9, 15, 16, 17, 31, 32, 33, 63, 64, 65, 127, 128, 129, 255, 256, 257, 511, 512, 513,
          1023, 1024, 1025, 4095, 4096, 4097, 8191, 8192, 8193, 65535, 65536, 65537]
ALIGNS = [1 << k for k in range(13)]


def _raw_case(rng, tier):
    c = []
    used = set()
    for _ in range(rng.randint(6, 36)):
        r = rng.random()
        k = rng.randrange(8)
        if r < 0.45 or not used:
            a = rng.pick(ALIGNS)
            u = rng.random()
            if u < 0.85:
                size = rng.pick(BSIZES)
            elif u < 0.90:
                size = rng.pick([1 << 20, (1 << 20) + 1, (1 << 20) - 1])
            elif u < 0.95:
                size = rng.randrange(1, 70000)
            else:
                size = rng.pick([1 << 63, W - 1, W - 4096, W - a, (1 << 63) + 1, 1 << 62, W - 64, W - 2 * a + 1])
            c.append("am %d %d %d" % (k, size, a))
            used.add(k)
        elif r < 0.75:
            k = rng.pick(sorted(used)) if rng.chance(0.9) else k
            c.append("af %d" % k)
            used.discard(k)
        elif r < 0.83:
            c.append("aw %d %d" % (rng.pick(sorted(used)), rng.randrange(1000)))
        elif r < 0.93:
            c.append("ias %d %d" % (rng.pick(sorted(used)), rng.pick(ALIGNS)))
        else:
            c.append("chk")
    c.append("chk")
    if rng.chance(0.15):
        c.append("churn")
    c.append("leak")
    return c


def _arith_case(rng, sz):
    c = []
    for _ in range(rng.randint(6, 24)):
        r = rng.random()
        if r < 0.40:
            # power-of-two alignments only: the property (and ALIGN_PTR's contract) says nothing about others
            a = rng.pick(ALIGNS) if rng.chance(0.7) else (1 << rng.randrange(13, 63))
            u = rng.random()
            if u < 0.5 and a:
                p = (a * rng.randrange(0, 1 << 20) + rng.pick([-1, 0, 0, 1, a - 1, a // 2])) % W
            elif u < 0.8:
                p = (W - rng.randrange(0, 3 * max(a, 1) + 2)) % W
            else:
                p = rng.randrange(W)
            c.append("ap %d %d" % (p, a))
        elif r < 0.80:
            a = rng.pick(ALIGNS + [1 << 16, 1 << 20, 1 << 30])
            u = rng.random()
            if u < 0.6:
                p = (a * rng.randrange(0, 1 << 30) + rng.pick([-1, 0, 0, 0, 1, a // 2])) % W
            elif u < 0.8:
                p = W - 1 - rng.randrange(0, 2 * a + 2)
            else:
                p = rng.randrange(W)
            c.append("ia %d %d" % (p, a))
        elif r < 0.86:
            c.append("ms")
        elif r < 0.90:
            c.append("eq")
        else:
            c.append("va %d %d" % (rng.pick([16, 64, 128, 512, 4096]), rng.randrange(64)))
    return c


def _alloc_case(rng, sz):
    ms = (W - 1) // sz
    special = [0, 1, 2, 3, 5, 16, 17, 100, 1000, 4096, ms - 1, ms, ms + 1, ms + 2, W // sz, W // sz + 1, W // sz - 1,
               (1 << 41) + 1, (1 << 44), 1 << 63, (1 << 63) + 1, W - 1, W - 2, (W + sz - 1) // sz, (W + 7) // sz + 1,
               (1 << 61), (1 << 60) + 1, ms // 2 + 1, (1 << 50) // sz + 1]
    special = [n for n in special if 0 <= n < W]
    c = ["ms"]
    used = set()
    for _ in range(rng.randint(5, 22)):
        r = rng.random()
        k = rng.randrange(8)
        if r < 0.55 or not used:
            u = rng.random()
            if u < 0.5:
                n = rng.pick(special)
            elif u < 0.9:
                n = rng.pick([0, 1, 2, 3, 7, 8, 9, 63, 64, 65, 255, 256, 1000, 4096, 65536 // sz + 1])
            else:
                n = rng.randrange(ms - 3, min(W, ms + 4))
            c.append("%s %d %d" % (rng.pick(["alh", "alnh", "alnh"]) if rng.chance(0.3) else "al", k, n))
            used.add(k)
        elif r < 0.85:
            k = rng.pick(sorted(used)) if rng.chance(0.9) else k
            c.append("de %d" % k)
            used.discard(k)
        else:
            c.append("chk")
    c.append("chk")
    c.append("leak")
    return c


def _vec_case(rng, tier, sz):
    ms = (W - 1) // sz
    c = []

    def small():
        u = rng.random()
        if u < 0.6:
            return rng.randrange(0, 12)
        if u < 0.9:
            return rng.randrange(0, 40)
        return rng.pick([63, 64, 65, 100, 128, 129, 255, 256, 300])

    def huge():
        # either beyond max_size() (length_error) or beyond any allocator (bad_alloc); the window between
        # PTRDIFF_MAX/sizeof(T) and max_size() is left out (there the standard library's own limit decides)
        opts = [(1 << 50) // sz + 1, (1 << 55) // sz, (1 << 62) // sz - 1]
        if sz > 1:
            opts += [ms + 1, ms + 2, W - 1, (W // sz) + 1, 1 << 63]
        return rng.pick(opts)

    for _ in range(rng.randint(8, 50)):
        k = rng.randrange(2)
        x = rng.randrange(1, 251)
        r = rng.random()
        if r < 0.26: c.append("push %d %d" % (k, x))
        elif r < 0.31: c.append("pop %d" % k)
        elif r < 0.39: c.append("resize %d %d %d" % (k, huge() if rng.chance(0.08) else small(), x))
        elif r < 0.44: c.append("resize0 %d %d" % (k, huge() if rng.chance(0.08) else small()))
        elif r < 0.52: c.append("reserve %d %d" % (k, huge() if rng.chance(0.12) else small()))
        elif r < 0.58: c.append("shrink %d" % k)
        elif r < 0.63: c.append("assign %d %d %d" % (k, huge() if rng.chance(0.08) else small(), x))
        elif r < 0.69: c.append("copy %d" % k)
        elif r < 0.74: c.append("swap")
        elif r < 0.77: c.append("clear %d" % k)
        elif r < 0.83: c.append("insert %d %d %d" % (k, rng.randrange(0, 14), x))
        elif r < 0.87: c.append("erase %d %d" % (k, rng.randrange(0, 14)))
        elif r < 0.90: c.append("set %d %d %d" % (k, rng.randrange(0, 14), x))
        elif r < 0.92: c.append("release %d" % k)
        elif r < 0.95: c.append("get %d %d" % (k, rng.randrange(0, 14)))
        elif r < 0.98: c.append("dump %d" % k)
        else: c.append("objs")
    c += ["dump 0", "dump 1", "objs", "leak"]
    return c


def gen_cases(rng, tier, h):
    sz = h["sz"]
    q = tier == "quick"
    cases = []
    for _ in range(120 if q else 2500):
        cases.append(_vec_case(rng, tier, sz))
    for _ in range(40 if q else 600):
        cases.append(_raw_case(rng, tier))
    for _ in range(30 if q else 500):
        cases.append(_alloc_case(rng, sz))
    for _ in range(24 if q else 400):
        cases.append(_arith_case(rng, sz))
    # AlignedVector of an element type with an observable moved-from state against std::vector (self-checking op)
    for _ in range(6 if q else 200):
        cases.append(["svcheck %d" % rng.randrange(1 << 30) for _ in range(5)])
    return cases


_REALLOC = ("push", "resize", "resize0", "reserve", "shrink", "assign", "copy", "insert", "release", "swap")


def nontrivial(case):
    ops = [l.split()[0] for l in case]
    if sum(1 for o in ops if o in ("am", "al", "alh", "alnh")) >= 3:
        return True
    if "svcheck" in ops:
        return True
    if sum(1 for o in ops if o in ("ap", "ia", "ms", "va")) >= 4:
        return True
    return sum(1 for o in ops if o in _REALLOC) >= 4


MANIFEST = dict(
    text=("PROVED (Lean 4, all inputs / all histories): the arithmetic rkcommon itself performs — max_size() is exactly the largest count "
          "whose byte size fits size_t; when aligned_allocator::allocate reaches alignedMalloc the request is the unwrapped product "
          "n*sizeof(T) at the allocator's alignment, and it throws length_error exactly when n*sizeof(T) >= 2^64; isAligned holds exactly "
          "for multiples; ALIGN_PTR yields the least multiple >= p for power-of-two alignments (no wrap) — and, for AlignedVector modelled as "
          "allocate/copy/deallocate sequences over ANY system allocator meeting the stated contract and ANY growth policy, by induction over "
          "every history of push_back/pop_back/resize/reserve/shrink_to_fit/assign/copy-assign/swap/clear/insert/erase/write/release on two "
          "vectors: data() is null or a multiple of the alignment, the elements are those std::vector's specification determines (they survive "
          "every reallocation), nothing is constructed outside the owned block, only live blocks are freed, live blocks never overlap and are "
          "exactly the vectors' storage (no leak), failed operations change nothing. "
          "OBSERVED, NOT PROVED: that scalable_aligned_malloc/_mm_malloc and their free functions meet that contract — on every run, for both "
          "back ends and element sizes 1/4/12/64, the harness checks each returned pointer (sizes from a boundary-heavy set x alignments "
          "1..4096) for alignment, apartness from every live block, full-extent write/read-back, intact neighbour patterns after every free, "
          "ASan/UBSan clean, no block left after release; and the model is tied to the real code by diffing every observation of "
          "the same random operation lines (allocate(n) around max_size(), AlignedVector histories, isAligned/ALIGN_PTR values)."),
    note=("Trusted: Lean kernel; axioms propext/Classical.choice/Quot.sound; the hand-written model is tied to the code only by the correspondence "
          "harness (generators + canonicalisation) and g++/ASan/UBSan; the system allocators and libstdc++'s std::vector are contracts "
          "(observed each run, not proved); TBB-side leak detection is only an address-space growth test; 64-bit size_t."),
    technique="Lean 4 proof (size_t arithmetic; induction over operation histories under an allocator contract) + differential correspondence "
              "check model vs real code on two allocation back ends under ASan/UBSan")
