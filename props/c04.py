"""C04 — every vec_t operator is the component-wise lifting of its scalar definition.

Tie T: lean/RkVerif/Gen/C04.lean (float family, 197 wrappers) and Gen/C04I.lean (integer-only operators, 25 wrappers)
are regenerated from vec.h on every run; Props/C04.lean (218 theorems generated from the hand-written spec table of
tools/gen_c04.py) is re-checked against them. Tie C: the regenerated definitions run at Float32 / int32 and are
compared bit for bit with the real overloads. All 10 element types, mixed element types, indexing, arg_max,
std::less, conversions and streaming are compared with the scalar operation applied per component by the
self-checking harness harness/c04_types.cpp (implementation-side oracle; also the search for a failing input).
"""
import os
import re

from vlib import core, trprop
from vlib.trprop import f2h, INF

ID = "C04"
MODULE = "RkVerif.Props.C04"
DRIVER = "drv_c04"
THOROUGH_MODULES = ["RkVerif.Gen.C04", "RkVerif.Gen.C04I"]
HARNESSES = [dict(name="c04", src="harness/c04.cpp", flags=["-DRKCOMMON_NO_SIMD", "-ffp-contract=off"],
                  extra_deps=["tr/c04_drv.cpp", "tr/c04i_drv.cpp", "harness/gen/c04_dispatch.inc",
                              "harness/gen/c04i_dispatch.inc", "harness/drv_common.h"])]
RULE = ("(a) per wrapper (197 float-family + 25 integer-family overloads of vec.h in shapes 2/3/padded 3/4): operands with "
        "pairwise distinct components from small primes, eighths, negatives, +-inf (floats) / small non-zero ints; results "
        "compared bit for bit with the regenerated Lean definitions at Float32/int32. (b) harness/c04_types.cpp: every overload "
        "family x 10 element types x 3 shapes (+ padded, mixed element types, indexing, pointer view, arg_max, std::less, "
        "conversions, streaming) against the scalar operation per component in the same element type (exact), operands "
        "pairwise distinct, unsigned wrap-around included, signed overflow excluded. distinct = distinct (wrapper, operand bits) "
        "for (a) plus the number of component checks of (b) (each on fresh operands)")
ASSUMPTIONS = [
    "clang-14's AST of the instantiated templates is a faithful account of the source; the translator is validated by the bit-exact comparison",
    "the vec.h templates are uniform in the element type: the float instantiation stands for all (checked per element type by harness/c04_types.cpp, not proved)",
    "implicit arithmetic conversions (integer promotion and conversion back to the element type) are transparent in the translation; their effect is covered by the element-type harness",
    "signed overflow and division by zero are excluded from the generated operands (the property's own quantifier)",
]
EXPLAIN = "the real vec_t overload and the Lean definition regenerated from it disagree: translator or compiler discrepancy (tie broken)"
OUT_OF_SCOPE = {"operator<<", "arg_max", "linear_to_srgba", "cvt_uint32", "linear_to_srgba8", "operator[]", "operatorT*",
                "long_product", "divRoundUp", "operator%", "operator%=", "operator()", "vec_t", "operatorvec_t<T,3>"}
_sf, _si = {}, {}


def regenerate(rep):
    r = trprop.regenerate(rep, "C04", "tr/c04_drv.cpp", ["RKCOMMON_NO_SIMD"], [], OUT_OF_SCOPE, _sf,
                          "float", "vdrv_dispatch_f")
    # (both, also when the first one failed: each loads the signatures the case generator needs - from the snapshot
    # when the translator could not process the tree)
    r2 = trprop.regenerate(rep, "C04I", "tr/c04i_drv.cpp", ["RKCOMMON_NO_SIMD"], [], OUT_OF_SCOPE, _si,
                           "int", "vdrv_dispatch_i")
    return r or r2


PRIMES = [2, 3, 5, 7, 11, 13, 17, 19, 23, 29, 31, 37]


def _fvals(rng, n):
    out, used = [], set()
    while len(out) < n:
        v = rng.pick(PRIMES) + rng.randrange(8) / 8.0
        if rng.chance(0.4):
            v = -v
        if rng.chance(0.02):
            v = rng.pick([INF, -INF])
        if rng.chance(0.03):
            v = rng.pick([0.0, 1e-40, -1e-40])  # zero / denormal (rcp_safe)
        if v in used:
            continue
        used.add(v)
        out.append(v)
    return out


def _ivals(rng, n):
    out, used = [], set()
    while len(out) < n:
        v = rng.pick(PRIMES) + rng.randrange(40)
        if rng.chance(0.4):
            v = -v
        if v in used:
            continue
        used.add(v)
        out.append(v)
    return out


def gen_cases(rng, tier, h):
    per = 25 if tier == "quick" else 600
    cases = []
    for fam, sigs in (("f", _sf), ("i", _si)):
        fields = sigs["__fields__"]
        for nm in sorted(k for k in sigs if not k.startswith("__")):
            params, rt = sigs[nm]
            n = sum(trprop.flat_n(t, fields) for _, t in params)
            c = []
            for i in range(per):
                if fam == "f":
                    vals = _fvals(rng, n)
                    if ("_eq" in nm or "_ne" in nm or "_less" in nm or "anyLess" in nm) and i % 3 and n % 2 == 0:
                        half = n // 2
                        vals[half:] = vals[:half] if i % 3 == 1 else vals[:1] + vals[half + 1:]
                        if i % 6 == 4:
                            # equal operands except for the sign of a zero (IEEE: +0 == -0) ...
                            k = rng.randrange(half)
                            vals[:half] = vals[half:]
                            vals[k], vals[half + k] = 0.0, -0.0
                        elif i % 6 == 5:
                            # ... and bitwise identical operands holding a NaN (IEEE: NaN != NaN)
                            k = rng.randrange(half)
                            vals[:half] = vals[half:]
                            vals[k] = vals[half + k] = float("nan")
                    c.append("f " + nm + " " + " ".join(f2h(x) for x in vals))
                else:
                    vals = _ivals(rng, n)
                    c.append("i " + nm + " " + " ".join("%08x" % (x & 0xffffffff) for x in vals))
                if len(c) == 25:
                    cases.append(c)
                    c = []
            if c:
                cases.append(c)
    return cases


def nontrivial(case):
    return any(len(l.split()) > 3 for l in case)


def extra_stage(rep, ctx):
    hb, hout = core.build_harness("c04types", "harness/c04_types.cpp", (), [], core.SAN, "c++11", (), "-O1")
    if hb is None:
        rep.violation(dict(kind="harness-build-failed", harness="c04_types", output=hout[-4000:]), no_input=True)
        return None
    rounds = 40 if rep.tier == "quick" else 2000
    rc, out, err = core.run_prog(hb, "", timeout=1200, args=[str(rep.seed), str(rounds)])
    fails = [l for l in out.splitlines() if l.startswith("FAIL")]
    m = re.search(r"checked=(\d+) failed=(\d+)", out)
    checked = int(m.group(1)) if m else 0
    if rc != 0 and not fails:
        rep.violation(dict(kind="oracle-crash", harness="c04_types", args=[rep.seed, rounds], rc=rc,
                           detail=core.sanitizer_summary(err) or "rc=%s" % rc, stderr=err[-3000:],
                           explanation="the element-type harness aborted (sanitizer report) while exercising vec_t overloads"))
        return dict(evaluations=checked, found_input=True)
    seen = set()
    for l in fails:
        key = tuple(re.findall(r"(?:type|n|op)=(\S+)", l))
        if key in seen or len(seen) >= 4:
            continue
        seen.add(key)
        rep.violation(dict(kind="property-oracle", harness="c04_types", replay_cmd=[os.path.basename(hb), rep.seed, rounds], detail=l,
                           explanation="a vec_t overload returned a component different from the scalar operation applied to the corresponding components"))
    return dict(evaluations=checked, distinct=["types-%d" % i for i in range(checked)] if checked < 200000 else ["types-%d" % i for i in range(200000)],
                samples=[dict(element_type_oracle=out.splitlines()[-1] if out else "", rounds=rounds)], found_input=bool(fails))


MANIFEST = dict(
    text=("218 Lean 4 theorems, one per overload x shape (unary +/-, rcp/rcp_safe/abs/sin/cos, + - * / % in vec-vec / vec-scalar / "
          "scalar-vec form, the compound assignments, min/max/divRoundUp, madd, ==, !=, anyLessThan, dot, length, normalize, "
          "safe_normalize, cross, interpolate_uv, the reductions, sum/product, broadcast/component/shape-converting constructors), "
          "each stating that the definition REGENERATED from vec.h's clang AST equals the scalar definition applied to the "
          "corresponding components — over an arbitrary scalar type, so for all element types and all values at once. The "
          "regenerated definitions are also run at Float32/int32 and compared bit for bit with the real overloads; all 10 element "
          "types, mixed element types, indexing/pointer view, arg_max, std::less, conversions and streaming are compared exactly "
          "with per-component scalar evaluation by a self-checking harness (that part is exploration, not proof)."),
    note=("Trusted: Lean kernel + propext/Quot.sound; clang-14 AST + tools/cpp2lean.py (validated each run by the bit-exact "
          "correspondence); uniformity of the templates in the element type and the implicit arithmetic conversions are covered by "
          "the element-type harness only; floating-point sums are 'within rounding' only in the sense that the code performs exactly "
          "the stated sequence of scalar operations."),
    technique="Lean 4 proof over a model regenerated from the C++ AST by a translator + bit-exact differential check + exact per-element-type oracle")
