"""C10 — FlatMap / ParameterizedObject vs the insertion-ordered unique-key reference map."""
ID = "C10"
MODULE = "RkVerif.Props.C10"
DRIVER = "drv_c10"
THOROUGH_MODULES = ["RkVerif.Model.C10", "RkVerif.Lemmas.C10"]

_SRCS = ["rkcommon/utility/ParameterizedObject.cpp", "rkcommon/utility/demangle.cpp"]
# one binary per instantiation (-DC10_ONLY=<k> compiles only that one): a tree on which one key type no longer
# compiles (e.g. because FlatMap starts to need operator<) still has the others searched for a failing input
HARNESSES = [
    dict(name="c10" + m, src="harness/c10.cpp", repo_srcs=_SRCS, args=[m], mode=m, flags=["-DC10_ONLY=%d" % k])
    for k, m in enumerate(("ii", "ss", "si", "is", "ti"))
]

RULE = ("random operation histories over FlatMap<int|string, int|string> (4 instantiations) and "
        "ParameterizedObject with 6 payload types, key/name alphabets of 4 so that collisions, re-insertion "
        "after removal and removal of first/middle/last are frequent; a case is non-trivial when it contains "
        "a removal or a type-mismatched read and at least 4 state-changing operations; distinct = distinct op sequences")
ASSUMPTIONS = [
    "std::vector, std::find_if, std::stable_partition, std::shared_ptr and rkcommon::utility::Any::is/get behave per their specifications",
    "key and value types have a lawful operator== (int, std::string are exercised)",
]
EXPLAIN = ("observations (returned values, throw/no-throw, iteration order, query flags) of the real FlatMap / "
           "ParameterizedObject differ from the Lean model for which keys_nodup, flatmap_refines, "
           "param_type_mismatch_default and param_query_flag are proved")

PTYPES = ["int", "float", "string", "bool", "long", "vec3f", "key", "thr"]


def _tok(kind, x):
    return ("s" + "abcd"[x] * (1 + x % 2)) if kind == "s" else str(x)


def gen_cases(rng, tier, h):
    mode = h["mode"]
    kk, vk = ("i" if mode[0] == "t" else mode[0]), mode[1]
    n = 400 if tier == "quick" else 40000
    cases = []
    for _ in range(n):
        c = ["fm_new " + ("0" if vk == "i" else "s")]
        for _ in range(rng.randint(3, 30)):
            k = _tok(kk, rng.randrange(4))
            v = _tok(vk, rng.randrange(4)) if vk == "s" else str(rng.randrange(1, 9))
            r = rng.random()
            if mode == "ti" and r < 0.08: c.append("set_throw %s %s" % (k, v))
            elif r < 0.22: c.append("set %s %s" % (k, v))
            elif r < 0.32: c.append("idx " + k)
            elif r < 0.42: c.append("at " + k)
            elif r < 0.48: c.append("at_set %s %s" % (k, v))
            elif r < 0.55: c.append("has " + k)
            elif r < 0.70: c.append("erase " + k)
            elif r < 0.73: c.append("clear")
            elif r < 0.78: c.append("size")
            elif r < 0.80: c.append("empty")
            elif r < 0.88: c.append("at_index %d" % rng.randrange(6))
            elif r < 0.96: c.append("items")
            else: c.append("ritems")
        c.append("items")
        cases.append(c)
        # ParameterizedObject history
        c = ["po_new"]
        for _ in range(rng.randint(3, 30)):
            nm = "p" + "abcd"[rng.randrange(4)]
            t = rng.pick(PTYPES[:3]) if rng.chance(0.7) else rng.pick(PTYPES)
            v = str(rng.randrange(1, 9)) if t != "bool" else "1"   # for "key": 4a+b, equal (operator==) iff same a
            d = str(rng.randrange(10, 19)) if t != "bool" else "0"
            r = rng.random()
            if rng.chance(0.04):
                # two writes of payloads that compare equal (operator== looks at the key only) but differ: the second
                # write must still replace the first
                a = rng.randrange(0, 2)
                b1, b2 = rng.sample(range(4), 2)
                c.append("pset %s key %d" % (nm, 4 * a + b1 if 4 * a + b1 > 0 else 1))
                c.append("pset %s key %d" % (nm, 4 * a + b2 if 4 * a + b2 > 0 else 2))
                c.append("pget %s key %d" % (nm, rng.randrange(10, 19)))
                continue
            if r < 0.06: c.append("pset_throw %s %s" % (nm, rng.randrange(1, 9)))
            elif r < 0.30: c.append("pset %s %s %s" % (nm, t, v))
            elif r < 0.62: c.append("pget %s %s %s" % (nm, t, d))
            elif r < 0.70: c.append("phas " + nm)
            elif r < 0.80: c.append("prem " + nm)
            elif r < 0.86: c.append("preset")
            else: c.append("pdump")
        c.append("pdump")
        cases.append(c)
    return cases


def nontrivial(case):
    muts = sum(1 for l in case if l.split()[0] in ("set", "idx", "at_set", "erase", "clear", "pset", "pget", "prem", "preset"))
    return muts >= 4 and any(l.split()[0] in ("erase", "prem", "pget") for l in case)

MANIFEST = dict(
    text=("Lean 4 theorems over an executable model of FlatMap and ParameterizedObject: key uniqueness for every history, refinement "
          "to an insertion-ordered reference map (lookup function + key order) for every history, at() throws iff absent, erase keeps "
          "order, re-insertion appends, type-mismatched reads return the default and touch nothing, query flag characterised for every "
          "history. The model is tied to the code by running the same random op histories through the real classes (4 key/value "
          "instantiations incl. a key type whose copies throw, 8 parameter types incl. one whose k-th copy throws during an overwrite — every k —, ASan/UBSan) and the compiled model and diffing every observation."),
    note=("Trusted: Lean kernel; axioms propext/Classical.choice/Quot.sound; the hand-written model is tied to the code only by the "
          "correspondence harness (generators + canonicalisation) and g++/sanitizer runtimes; std::vector/find_if/stable_partition/"
          "shared_ptr and Any::is/get are assumed to meet their specifications."),
    technique="Lean 4 proof (induction over operation histories, refinement) + differential correspondence check model vs real code")
