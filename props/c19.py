"""C19 — observers see each notification once; time stamps are unique and increasing."""
import os
import re
import sys

from vlib import core

# vlib.core.Pair.compare restarts (recursively) after every sanitizer abort; a tree on which most
# histories abort must still end in a VIOLATION line, not in a RecursionError
sys.setrecursionlimit(max(sys.getrecursionlimit(), 50000))

ID = "C19"
MODULE = "RkVerif.Props.C19"
DRIVER = "drv_c19"
THOROUGH_MODULES = ["RkVerif.Model.C19", "RkVerif.Lemmas.C19"]

_SRCS = ["rkcommon/utility/TimeStamp.cpp"]
HARNESSES = [
    dict(name="c19", src="harness/c19.cpp", repo_srcs=_SRCS, kind="asan", timeout=600),
    dict(name="c19_tsan", src="harness/c19.cpp", repo_srcs=_SRCS, san=core.TSAN, kind="tsan", timeout=900),
]

RULE = ("random histories over 3 observable slots and 5 observer slots (slots are reused, so are heap addresses): create / "
        "destroy / copy / move / assign observables and observers, notify (often repeated between polls), poll; scenario "
        "templates for late observers, coalescing, both destruction orders, copies outliving their source and polls after the "
        "observable died; every case ends by destroying all objects in a random order with polls in between (ASan+UBSan). "
        "Sequential stamp histories (create/renew/copy/move/assign, values compared by rank). Threaded stamp runs with 1..16 "
        "threads creating/renewing/copying stamps behind a start barrier, all values collected and checked for uniqueness and "
        "per-thread monotonicity, under ASan and again under TSan. A case is non-trivial when it has a poll after a notify and "
        "a destruction, or a fresh stamp after a copy, or a threaded run with >= 2 threads; distinct = distinct op sequences")
ASSUMPTIONS = [
    "the size_t counter does not wrap (2^64 stamps are not reached); the model counts in unbounded naturals",
    "std::atomic<size_t> fetch-and-increment is one indivisible read-modify-write and the modification order of one atomic "
    "is consistent with each thread's program order (C++11 [intro.multithread] coherence); std::vector/std::remove behave "
    "per their specifications",
    "Observable/Observer are used from one thread at a time (the classes have no synchronisation; the property's concurrent "
    "part is about TimeStamp only)",
    "a copied Observer carries its source's state: it is told about a notification exactly when its source would have been "
    "(its creation counts as the source's creation / last poll)",
]
EXPLAIN = ("observations of the real Observable/Observer/TimeStamp (wasNotified results, use of destroyed objects reported by "
           "ASan, rank pattern of stamp values, uniqueness/monotonicity summary of the threaded run, data races reported by TSan) "
           "differ from the Lean model for which observer_refines, no_dangling, orphan_false, poll_iff_notified_since_*, "
           "coalesce, stamps_unique, stamps_thread_monotone and copy_keeps_value are proved")

NBS, NOS, NTS = 3, 5, 6


def _teardown(rng, c, lb, lo):
    """destroy everything in a random order, polling survivors in between."""
    items = [("b", b) for b in sorted(lb)] + [("o", o) for o in sorted(lo)]
    rng.shuffle(items)
    alive_o = set(lo)
    for kind, k in items:
        if kind == "b":
            c.append("bdel b%d" % k)
            if alive_o and rng.chance(0.7):
                c.append("poll o%d" % rng.pick(sorted(alive_o)))
        else:
            if rng.chance(0.3):
                c.append("poll o%d" % k)
            c.append("odel o%d" % k)
            alive_o.discard(k)


def _obs_case(rng):
    c = []
    lb, lo = set(), set()
    n = rng.randint(6, 34)
    for _ in range(n):
        r = rng.random()
        b = rng.randrange(NBS)
        o = rng.randrange(NOS)
        if rng.chance(0.05):
            # an arbitrary, possibly inapplicable operation (skip paths)
            c.append(rng.pick(["bnew b%d" % b, "bdel b%d" % b, "onew o%d b%d" % (o, b), "odel o%d" % o,
                               "poll o%d" % o, "notify b%d" % b, "ocopy o%d o%d" % (o, rng.randrange(NOS)),
                               "oassign o%d o%d" % (o, rng.randrange(NOS)), "bcopy b%d b%d" % (b, rng.randrange(NBS))]))
            w = c[-1].split()
            # keep the picture of live slots right
            if w[0] == "bnew": lb.add(b)
            elif w[0] == "bdel": lb.discard(b)
            elif w[0] == "onew" and b in lb: lo.add(o)
            elif w[0] == "odel": lo.discard(o)
            elif w[0] == "ocopy" and int(w[2][1:]) in lo: lo.add(o)
            elif w[0] in ("bcopy", "bmove") and int(w[2][1:]) in lb: lb.add(b)
            continue
        if not lb or (r < 0.08 and len(lb) < NBS):
            free = [x for x in range(NBS) if x not in lb]
            if free:
                b = rng.pick(free); c.append("bnew b%d" % b); lb.add(b)
            continue
        b = rng.pick(sorted(lb))
        if r < 0.22 or not lo:
            free = [x for x in range(NOS) if x not in lo]
            if free:
                o = rng.pick(free); c.append("onew o%d b%d" % (o, b)); lo.add(o)
            continue
        o = rng.pick(sorted(lo))
        if r < 0.44:
            for _ in range(rng.pick([1, 1, 1, 2, 3])):
                c.append("notify b%d" % b)
        elif r < 0.68:
            c.append("poll o%d" % o)
            if rng.chance(0.3):
                c.append("poll o%d" % o)
        elif r < 0.74:
            c.append("odel o%d" % o); lo.discard(o)
        elif r < 0.79:
            c.append("bdel b%d" % b); lb.discard(b)
            if lo and rng.chance(0.8):
                c.append("poll o%d" % rng.pick(sorted(lo)))
        elif r < 0.87:
            free = [x for x in range(NOS) if x not in lo]
            if free:
                d = rng.pick(free)
                c.append("%s o%d o%d" % (rng.pick(["ocopy", "ocopy", "omove"]), d, o)); lo.add(d)
                if rng.chance(0.4):
                    c.append("odel o%d" % o); lo.discard(o)
        elif r < 0.93:
            c.append("%s o%d o%d" % (rng.pick(["oassign", "oassign", "omassign"]), o, rng.pick(sorted(lo))))
        elif r < 0.97:
            free = [x for x in range(NBS) if x not in lb]
            if free:
                d = rng.pick(free); c.append("%s b%d b%d" % (rng.pick(["bcopy", "bcopy", "bmove"]), d, b)); lb.add(d)
                if rng.chance(0.5):
                    c.append("bdel b%d" % d); lb.discard(d)
                    if lo:
                        c.append("notify b%d" % b); c.append("poll o%d" % rng.pick(sorted(lo)))
        else:
            c.append("%s b%d b%d" % (rng.pick(["bassign", "bmassign"]), b, rng.pick(sorted(lb))))
    _teardown(rng, c, lb, lo)
    return c


def _templates(rng):
    k = rng.randint(1, 4)
    nots = ["notify b0"] * k
    t = [
        # late observer: created after notifications
        ["bnew b0"] + nots + ["onew o0 b0", "poll o0"] + nots + ["poll o0", "poll o0", "odel o0", "bdel b0"],
        # coalescing, two observers polled independently
        ["bnew b0", "onew o0 b0", "onew o1 b0"] + nots + ["poll o0", "poll o0"] + nots + ["poll o1", "poll o1", "poll o0",
                                                                                          "bdel b0", "poll o0", "poll o1", "odel o1", "odel o0"],
        # destruction order: observer first / observable first
        ["bnew b0", "onew o0 b0", "notify b0", "odel o0", "notify b0", "bdel b0"],
        ["bnew b0", "onew o0 b0", "notify b0", "bdel b0", "poll o0", "bnew b0", "notify b0", "poll o0", "odel o0", "bdel b0"],
        # a copy outlives its source and then its observable
        ["bnew b0", "onew o0 b0", "notify b0", "ocopy o1 o0", "odel o0", "poll o1", "notify b0", "poll o1", "bdel b0", "poll o1", "odel o1"],
        ["bnew b0", "onew o0 b0", "omove o1 o0", "bdel b0", "poll o1", "poll o0", "odel o1", "odel o0"],
        # assignment re-targets: the old observable forgets the observer, the new one knows it
        ["bnew b0", "bnew b1", "onew o0 b0", "onew o1 b1", "oassign o0 o1", "notify b0", "poll o0", "notify b1", "poll o0",
         "bdel b0", "poll o0", "odel o1", "bdel b1", "poll o0", "odel o0"],
        ["bnew b0", "onew o0 b0", "notify b0", "oassign o0 o0", "poll o0", "bdel b0", "odel o0"],
        # copying an observable does not take over its observers
        ["bnew b0", "onew o0 b0", "bcopy b1 b0", "bdel b1", "notify b0", "poll o0", "odel o0", "bdel b0"],
        ["bnew b0", "onew o0 b0", "bcopy b1 b0", "odel o0", "bdel b1", "bdel b0"],
        ["bnew b0", "bnew b1", "onew o0 b0", "onew o1 b1", "bassign b1 b0", "notify b1", "poll o1", "poll o0", "odel o1", "bdel b1",
         "notify b0", "poll o0", "bdel b0", "odel o0"],
    ]
    return rng.pick(t)


def _stamp_case(rng):
    c = []
    live = set()
    for _ in range(rng.randint(5, 25)):
        r = rng.random()
        k = rng.randrange(NTS)
        if not live or r < 0.25:
            free = [x for x in range(NTS) if x not in live]
            if free:
                k = rng.pick(free); c.append("tnew t%d" % k); live.add(k)
            continue
        s = rng.pick(sorted(live))
        if r < 0.50:
            c.append("trenew t%d" % s)
        elif r < 0.65:
            free = [x for x in range(NTS) if x not in live]
            if free:
                k = rng.pick(free); c.append("%s t%d t%d" % (rng.pick(["tcopy", "tmove"]), k, s)); live.add(k)
        elif r < 0.80:
            c.append("%s t%d t%d" % (rng.pick(["tassign", "tmassign"]), rng.pick(sorted(live)), s))
        elif r < 0.90:
            c.append("tval t%d" % s)
        elif r < 0.95:
            c.append("tdel t%d" % s); live.discard(s)
        else:
            c.append(rng.pick(["tnew", "trenew", "tval", "tdel"]) + " t%d" % k)
            w = c[-1].split()[0]
            if w == "tnew": live.add(k)
            if w == "tdel": live.discard(k)
    for s in sorted(live):
        c.append("tval t%d" % s)
    return c


def _mt_case(rng, big):
    T = rng.pick([1, 2, 2, 3, 4, 8, 16, rng.randint(1, 16)])
    n = rng.pick([50, 400, 2000]) if not big else rng.pick([2000, 10000])
    return ["mt %d %d %d" % (T, n, rng.randrange(1000))]


PROBE = 120


def _interleave(obs, stamps, mts):
    """the first PROBE cases hold all three kinds: 8 threaded runs, 24 stamp histories, observer histories."""
    head = mts[:8] + stamps[:24] + obs[:PROBE - 8 - 24]
    return head + obs[PROBE - 8 - 24:] + stamps[24:] + mts[8:]


def gen_cases(rng, tier, h):
    cases = _gen_all(rng, tier, h)
    # Probe batch: when the corpus or the first PROBE generated cases already fail on this tree, report from
    # those and skip the large batch (each sanitizer abort restarts the harness on the remaining cases, so a
    # tree on which every second history aborts would otherwise take quadratic time; one replay is enough).
    try:
        hb, _ = core.build_harness(h["name"], h["src"], h.get("repo_srcs", ()), h.get("flags", ()),
                                   h.get("san", core.SAN), h.get("std", "c++11"), h.get("libs", ()), h.get("opt", "-O1"))
        if hb is not None:
            pair = core.Pair(hb, core.driver_path(DRIVER), timeout=h.get("timeout", 600))
            head = cases[:PROBE]
            if pair.compare(core.load_corpus(ID) + head):
                core.log("[C19] probe batch of harness %s fails: large batch skipped" % h["name"])
                return head
    except Exception as ex:  # the runner will hit and report the same problem
        core.log("[C19] probe batch not run: %r" % (ex,))
    return cases


def _threaded(rng, c):
    """the same history spread over three worker threads (every operation still strictly after the previous one)"""
    # only the observer / observable operations: "notified since the previous poll" must hold when the notifying and
    # the polling thread differ (every operation strictly after the previous one). Time-stamp operations stay on the
    # main thread: the property orders a thread's own stamps only, so the relative order of stamps drawn on
    # different threads is not determined and must not be observed.
    return [("on %d %s" % (rng.randrange(3), l)) if l.split()[0][0] in "bo" or l.split()[0] in ("notify", "poll") else l for l in c]


_JUMPS = [2 ** 31 - 1, 2 ** 31, 2 ** 31 + 1, 2 ** 32 - 1, 2 ** 32, 2 ** 32 + 3, 3 * 2 ** 31, 2 ** 33, 2 ** 40]


def _jumps(rng, c):
    """somebody else in the process draws 2^31 .. 2^40 stamps between two operations of the history: the order of
    stamps is an order of 64-bit values, not of their low 32 bits"""
    if not c or c[0].split()[0] == "mt":
        return c
    out = list(c)
    for _ in range(rng.pick([1, 1, 2, 3])):
        out.insert(rng.randrange(1, len(out) + 1), "tjump %d" % rng.pick(_JUMPS))
    return out


def _gen_all(rng, tier, h):
    quick = tier == "quick"
    cases = _gen_all0(rng, tier, h)
    cases = [(_jumps(rng, c) if rng.chance(0.3) else c) for c in cases]
    return [(_threaded(rng, c) if rng.chance(0.3) else c) for c in cases]


def _gen_all0(rng, tier, h):
    quick = tier == "quick"
    cases = []
    if h.get("kind") == "tsan":
        mts = [_mt_case(rng, False) for _ in range(16 if quick else 150)]
        obs = [(_obs_case(rng) if rng.chance(0.85) else _templates(rng)) for _ in range(300 if quick else 5000)]
        stamps = [_stamp_case(rng) for _ in range(20 if quick else 100)]
        return _interleave(obs, stamps, mts)
    obs = [(_obs_case(rng) if rng.chance(0.85) else _templates(rng)) for _ in range(3000 if quick else 100000)]
    stamps = [_stamp_case(rng) for _ in range(500 if quick else 10000)]
    mts = [_mt_case(rng, not quick and rng.chance(0.2)) for _ in range(16 if quick else 150)]
    return _interleave(obs, stamps, mts)


def nontrivial(case):
    case = [" ".join(l.split()[2:]) if l.startswith("on ") else l for l in case]
    ops = [l.split()[0] for l in case]
    if "mt" in ops:
        return any(int(l.split()[1]) >= 2 for l in case if l.startswith("mt "))
    if "poll" in ops:
        seen_notify = False
        ok = False
        for o in ops:
            if o == "notify": seen_notify = True
            if o == "poll" and seen_notify: ok = True
        return ok and ("odel" in ops or "bdel" in ops)
    fresh_after_copy = False
    copied = False
    for o in ops:
        if o in ("tcopy", "tmove", "tassign", "tmassign"): copied = True
        if o in ("tnew", "trenew") and copied: fresh_after_copy = True
    return fresh_after_copy


# --------------------------------------------------------------------------- source-shape check (tie T)

def _strip_cpp_comments(s):
    s = re.sub(r"/\*.*?\*/", " ", s, flags=re.S)
    return re.sub(r"//[^\n]*", " ", s)


_ONE = r"(?:1[uUlL]*|(?:std::)?size_t\s*[({]\s*1\s*[)}]|\(\s*(?:std::)?size_t\s*\)\s*1)"
_RMW = (r"(?:global\s*\+\+|\+\+\s*global|global\s*\.\s*fetch_add\s*\(\s*" + _ONE +
        r"\s*(?:,\s*std::memory_order_\w+\s*)?\))")
_NEXT_BODIES = [
    r"return\s+" + _RMW + r"\s*;",
    r"(?:const\s+)?(?:std::)?(?:size_t|auto)\s+(\w+)\s*=\s*" + _RMW + r"\s*;\s*return\s+\1\s*;",
]


def source_shape():
    """-> list of mismatches (empty = the counter is a std::atomic and nextValue is a single RMW on it)."""
    bad = []
    try:
        hdr = _strip_cpp_comments(open(os.path.join(core.REPO, "rkcommon/utility/TimeStamp.h")).read())
        cpp = _strip_cpp_comments(open(os.path.join(core.REPO, "rkcommon/utility/TimeStamp.cpp")).read())
    except OSError as ex:
        return ["cannot read TimeStamp.h/.cpp: %r" % ex]
    if not re.search(r"static\s+std::atomic\s*<\s*(?:std::)?size_t\s*>\s+global\s*;", hdr):
        bad.append("TimeStamp.h: `static std::atomic<size_t> global;` not found (the counter must be a std::atomic)")
    if not re.search(r"std::atomic\s*<\s*(?:std::)?size_t\s*>\s+TimeStamp::global\b", cpp):
        bad.append("TimeStamp.cpp: definition `std::atomic<size_t> TimeStamp::global` not found")
    m = re.search(r"size_t\s+TimeStamp::nextValue\s*\(\s*\)\s*\{(.*?)\}", cpp, flags=re.S)
    if not m:
        bad.append("TimeStamp.cpp: body of TimeStamp::nextValue() not found")
    else:
        body = m.group(1).strip()
        if not any(re.fullmatch(p, body, flags=re.S) for p in _NEXT_BODIES):
            bad.append("TimeStamp.cpp: nextValue() is not a single read-modify-write of the counter: `%s`" % " ".join(body.split()))
    if len(re.findall(r"\bglobal\b", re.sub(r"\bglobal\s*\.\s*load\s*\(", "(", cpp))) != 2:
        bad.append("TimeStamp.cpp: the counter `global` is modified or referenced outside its definition and nextValue()")
    if not re.search(r"std::atomic\s*<\s*(?:std::)?size_t\s*>\s+value\s*\{\s*nextValue\s*\(\s*\)\s*\}", hdr):
        bad.append("TimeStamp.h: a new TimeStamp no longer initialises `value{nextValue()}`")
    return bad


def extra_stage(rep, ctx):
    bad = source_shape()
    rep.coverage["source_shape"] = "ok" if not bad else bad
    if not bad:
        return None
    # The tie between StampM's atomic fetch-and-increment step and the source is broken: search for a
    # concrete failing run on the real code (many threads, long runs, ASan build and TSan build).
    rng = ctx["rng"]
    evaluations = 0
    for h in HARNESSES:
        hb, _ = core.build_harness(h["name"], h["src"], h.get("repo_srcs", ()), h.get("flags", ()),
                                   h.get("san", core.SAN), h.get("std", "c++11"), h.get("libs", ()), h.get("opt", "-O1"))
        if hb is None:
            continue
        pair = core.Pair(hb, core.driver_path(DRIVER), timeout=900)
        rounds = 30 if ctx["tier"] == "quick" else 200
        for i in range(rounds):
            case = ["mt %d %d %d" % (rng.pick([2, 4, 8, 16]), rng.pick([2000, 20000]), i)]
            evaluations += 1
            ff = pair.fails_one(case)
            if ff:
                f = ff[0]
                rep.violation(dict(kind="stamp-counter-" + f["kind"], harness=h["name"], ops=case, impl=f.get("impl"),
                                   model=f.get("model"), detail=f.get("detail"), stderr=f.get("stderr", "")[-2500:],
                                   source_shape=bad,
                                   explanation="TimeStamp's counter is no longer a single atomic read-modify-write and "
                                               "concurrent threads obtained duplicate / non-increasing stamps or raced"))
                return dict(evaluations=evaluations, found_input=True)
    rep.violation(dict(kind="tie-broken-source-shape", source_shape=bad,
                       note="stamps_unique / stamps_thread_monotone are proved for a counter advanced by one atomic "
                            "fetch-and-increment per stamp; the source no longer has that shape and %d threaded runs found no "
                            "failing schedule" % evaluations), no_input=True)
    return dict(evaluations=evaluations)


MANIFEST = dict(
    text=("Lean 4 theorems over an executable model of Observable/Observer (time-stamp comparisons, registration lists, raw "
          "pointers with explicit liveness) and of the TimeStamp counter: for every operation history (create, destroy, copy, "
          "assign, notify, poll; any length) wasNotified returns the pending bit of a one-bit-per-observer specification and "
          "clears it (refinement by simulation), which is true exactly when the observable notified since the observer's last "
          "poll or creation; repeated notifications coalesce, late observers start clear, observers are independent, polls "
          "after the observable died return false, and no history dereferences a destroyed object in any destruction order; "
          "for every interleaving of any number of threads the fetch-and-increment counter hands out pairwise distinct values, "
          "increasing per thread, and copies keep their source's value; stamps drawn by unrelated code between the operations (any number: 2^31, 2^40) are invisible to every observer (foreign_draws_invisible). Tied to the code by running the same random histories "
          "through the real classes under ASan/UBSan and through the compiled model (incl. jumps of the process-wide counter by 2^31..2^40 between operations), by threaded stamp runs (1-16 threads) "
          "checked for uniqueness/monotonicity under ASan and TSan, and by a source-shape check that the counter is a "
          "std::atomic advanced by a single read-modify-write."),
    note=("Trusted: Lean kernel; axioms propext/Classical.choice/Quot.sound; the hand-written model is tied to the code by the "
          "correspondence harness (generators + rank canonicalisation of stamp values) and a regex-level source-shape check; "
          "g++/ASan/UBSan/TSan runtimes; C++11 atomics semantics for one std::atomic<size_t>; the counter does not wrap; "
          "Observer/Observable are single-threaded. Two defects (copying an Observer / an Observable left dangling pointers) "
          "are repaired by fixes/C19-*.patch; the model follows the repaired code."),
    technique="Lean 4 proof (simulation/refinement over operation histories, inductive invariant over thread interleavings) + "
              "differential correspondence check model vs real code under ASan/UBSan/TSan + source-shape check")
