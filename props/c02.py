"""C02 — scheduled and async tasks run exactly once and deliver their result safely (four backends).

Two ties between the Lean model and /repo's current source:
  T  shape table: the declaration order of AsyncTask<T>'s data members, the statements of the task lambda, the
     flag's initialiser, whether the destructor waits, the shape of get()/wait()/finished(), and the life cycle of
     schedule_internal's heap task (does ExecuteRange `delete this`, who owns the task, is it recorded after it was
     added, is it deleted only when GetIsComplete(), does scheduleTaskInternal run the task itself when the scheduler
     has no worker threads) are read from the clang-14 JSON AST of rkcommon/tasking/AsyncTask.h,
     rkcommon/tasking/detail/TaskSys.h and TaskSys.cpp on every run and written to lean/RkVerif/Gen/C02Table.lean;
     Props/C02.lean proves `source_table_wf`, `source_sched_wf`, `source_sched_live` over that table by evaluation and
     the property theorems for every table of that shape.
  C  the same op lines (bursts of scheduled closures owning heap state, async() with four result types, AsyncTask with
     five result types and every controller sequence over finished/get/wait/destroy at pseudo-random pauses) run
     through the real code of each of the four backends (ASan/UBSan; the std::thread backend also under TSan; a fresh
     process per case) and through the compiled Lean model; the two observation streams are diffed.
"""
import json
import os
import re

from vlib import core

ID = "C02"
MODULE = "RkVerif.Props.C02"
DRIVER = "drv_c02"
THOROUGH_MODULES = ["RkVerif.Model.C02", "RkVerif.Lemmas.C02", "RkVerif.Gen.C02Table"]

HW = os.cpu_count() or 4

_INIT = "rkcommon/tasking/detail/tasking_system_init.cpp"
_T = "rkcommon/tasking/detail/"
_OMP_ENV = {"OMP_WAIT_POLICY": "PASSIVE"}

HARNESSES = [
    dict(name="c02dbg", backend="debug", src="harness/c02.cpp", repo_srcs=[_INIT], flags=[], driver_args=["debug"]),
    dict(name="c02int", backend="internal", src="harness/c02.cpp",
         repo_srcs=[_INIT, _T + "TaskSys.cpp", _T + "enkiTS/TaskScheduler.cpp"],
         flags=["-DRKCOMMON_TASKING_INTERNAL"], driver_args=["internal"]),
    dict(name="c02tbb", backend="tbb", src="harness/c02.cpp", repo_srcs=[_INIT],
         flags=["-DRKCOMMON_TASKING_TBB"], libs=["-ltbb"], driver_args=["tbb"]),
    dict(name="c02omp", backend="omp", src="harness/c02.cpp", repo_srcs=[_INIT],
         flags=["-fopenmp", "-DRKCOMMON_TASKING_OMP"], driver_args=["omp"], env=_OMP_ENV),
    # schedule()/AsyncTask of the OpenMP backend are plain std::thread + std::atomic, which ThreadSanitizer understands
    # (enkiTS's volatile/__sync synchronisation and TBB's internals it does not)
    dict(name="c02omp_tsan", backend="omp", tsan=True, src="harness/c02.cpp", repo_srcs=[_INIT],
         flags=["-fopenmp", "-DRKCOMMON_TASKING_OMP"], san=core.TSAN, driver_args=["omp"],
         env=dict(_OMP_ENV, TSAN_OPTIONS="exitcode=97:halt_on_error=1:second_deadlock_stack=1:stack_trace_format='#%n %S'")),
]
for _h in HARNESSES:
    _h["timeout"] = 2400    # whole batch; a single case is limited to 60 s by the harness itself

RULE = ("per backend (Debug, Internal/enkiTS, TBB, OpenMP under ASan/UBSan; OpenMP also under TSan; one fresh process per "
        "case): optional initTaskingSystem(n), n in {1,2,3,4,hw}; bursts of schedule()d closures (sizes 1,2,3,10,100,255,"
        "256,257,300,1000,2000 in quick; additionally 10^4 and 10^5 in thorough) that are plain, own heap state "
        "(shared_ptr<vector>, string; verified when run) or also sleep, optionally scheduling a second closure from inside "
        "the task, each with its own execution counter, followed by wait_all in which the caller only sleeps (observed: "
        "every counter == 1, none > 1); async() with result types int/string/vector/lifetime-instrumented (observed: "
        "future.get() == value); AsyncTask<int|string|vector|tracked|slow-default-constructed tracked> constructed in "
        "0xCD-filled storage with task durations 0..3000 us and every controller sequence of length 1..6 over "
        "{finished, get, wait, destroy} at pseudo-random pauses (observed: finished() never true before fcn completed, "
        "get()==value, wait() returns only after completion, destructor returns only after completion and the released "
        "storage is not written afterwards, fcn ran exactly once, lifetime log clean); sanitizer reports and hangs are "
        "observations. A case is non-trivial when it has a burst of >= 2 closures followed by wait_all, an async with a "
        "heap-owning type, or an AsyncTask with a non-trivial type and >= 2 controller calls; distinct = distinct op sequences")

ASSUMPTIONS = [
    "tbb::task_group / tbb::task_arena::enqueue, OpenMP, std::thread, std::packaged_task / std::future are contracts: "
    "they run a function handed to them exactly once and wait()/join()/get() return after it (observed on every run, not proved)",
    "'eventually' assumes a fair scheduler: proved are the absence of stuck states (some internal step is enabled while a "
    "task has not completed) and a strictly decreasing measure; the harness bounds the wait by a time limit",
    "C++ memory model replaced by sequential consistency at the granularity of one access per step (enkiTS's volatile + "
    "__sync built-ins, std::atomic<bool> jobFinished)",
    "schedule()/AsyncTask are used from the thread that initialised the tasking system or from inside a task (enkiTS: "
    "AddTaskSetToPipe 'should only be called from main thread, or within a task'); one controlling thread per AsyncTask",
    "initTaskingSystem() is not called while a task that itself calls schedule()/async() may be running (the global scheduler "
    "handle is replaced without synchronisation: on the Internal backend such a task then divides by zero in SplitAndAddTask "
    "or uses the dying scheduler) - re-initialisation with plain queued closures pending IS exercised",
    "the shape extractor (clang-14 AST -> member order, lambda statements, destructor/get()/wait() shape, task life cycle) "
    "is faithful; constructs it does not understand fail closed",
    "the enkiTS pipe (LockLessMultiReadPipe) hands every written partition to exactly one reader (C01's pipe_handoff); "
    "the model abstracts pipes to 'queued' and the pipe-full path to a nondeterministic choice",
]

EXPLAIN = ("the real schedule()/async()/AsyncTask (or a sanitizer watching them) produced an observation that differs from "
           "the Lean model for which asynctask_safe, schedule_once, schedule_no_uaf, schedule_enabled and async_delivers "
           "are proved")

GEN_FILE = os.path.join(core.LEAN, "RkVerif", "Gen", "C02Table.lean")


# --------------------------------------------------------------------------------------------------
# Tie T: shape table from the clang AST
# --------------------------------------------------------------------------------------------------

class Unsupported(Exception):
    pass


def _parse_concat_json(txt):
    dec = json.JSONDecoder()
    i, objs, n = 0, [], len(txt)
    while i < n:
        while i < n and txt[i] in " \r\n\t":
            i += 1
        if i >= n:
            break
        if txt[i] != "{":
            j = txt.find("\n", i)
            i = n if j < 0 else j + 1
            continue
        o, i = dec.raw_decode(txt, i)
        objs.append(o)
    return objs


def _clang(repo, src_text, name, defines, filt):
    os.makedirs(core.CACHE, exist_ok=True)
    tu = os.path.join(core.CACHE, name)
    with open(tu, "w") as fh:
        fh.write(src_text)
    cmd = (["clang++-14", "-std=gnu++17", "-I" + repo, "-I" + core.ensure_version_h(), "-fsyntax-only"] +
           ["-D" + d for d in defines] + ["-Xclang", "-ast-dump=json", "-Xclang", "-ast-dump-filter=" + filt, tu])
    rc, out, err = core.sh(cmd, timeout=300)
    if rc != 0:
        raise Unsupported("clang failed: " + err[-1500:])
    return _parse_concat_json(out)


def _qt(n):
    return (n.get("type") or {}).get("qualType", "")


def _kids(n):
    return [c for c in n.get("inner", []) if isinstance(c, dict) and c.get("kind")]


def _walk(n):
    yield n
    for c in _kids(n):
        for x in _walk(c):
            yield x


def _strip(n):
    """skip wrappers that carry no meaning for the shape"""
    while n.get("kind") in ("ImplicitCastExpr", "ParenExpr", "ExprWithCleanups", "MaterializeTemporaryExpr",
                            "CXXBindTemporaryExpr", "ConstantExpr") and _kids(n):
        n = _kids(n)[0]
    return n


def _this_member(n, fields):
    """n (after skipping wrappers) is `this->f` for a data member f -> field name, else None"""
    return _member_of(_strip(n), fields)


def _member_of(n, fields):
    """the node n itself is `this->f` for a data member f -> field name, else None"""
    if n.get("kind") != "MemberExpr":
        return None
    f = fields.get(n.get("referencedMemberDecl"))
    if f is None:
        return None
    base = _strip(_kids(n)[0]) if _kids(n) else {}
    if base.get("kind") != "CXXThisExpr":
        return None
    return f["name"]


def _is_this_call(n, method):
    """n is `method()` / `this->method()` on the object itself"""
    n = _strip(n)
    if n.get("kind") not in ("CallExpr", "CXXMemberCallExpr"):
        return False
    k = _kids(n)
    if len(k) != 1:
        return False
    callee = _strip(k[0])
    if callee.get("kind") != "MemberExpr" or callee.get("name") != method:
        return False
    base = _strip(_kids(callee)[0]) if _kids(callee) else {}
    return base.get("kind") == "CXXThisExpr"


def _body(fn):
    b = [c for c in _kids(fn) if c.get("kind") == "CompoundStmt"]
    return b[-1] if b else None


def extract_asynctask(repo):
    objs = _clang(repo, '#include "rkcommon/tasking/AsyncTask.h"\n', "c02_tu_at.cpp", [],
                  "rkcommon::tasking::AsyncTask")
    rec = None
    for o in objs:
        if o.get("kind") == "ClassTemplateDecl" and o.get("name") == "AsyncTask":
            for c in _kids(o):
                if c.get("kind") == "CXXRecordDecl" and c.get("completeDefinition"):
                    rec = c
    if rec is None:
        raise Unsupported("class template AsyncTask not found")
    fields, order = {}, []
    for c in _kids(rec):
        if c.get("kind") == "FieldDecl":
            f = dict(name=c.get("name"), type=_qt(c), node=c)
            fields[c["id"]] = f
            order.append(f)
    role = {}
    for f in order:
        t = f["type"]
        if re.search(r"\bAsyncTaskImpl\s*<", t):
            r = "taskImpl"
        elif re.match(r"^(std::)?atomic<bool>$|^std::atomic_bool$", t):
            r = "jobFinished"
        elif t == "T":
            r = "retValue"
        else:
            r = None
        if r:
            if r in role:
                raise Unsupported("two data members in the role of %s" % r)
            role[r] = f
            f["role"] = r
    for r in ("jobFinished", "retValue", "taskImpl"):
        if r not in role:
            raise Unsupported("no data member in the role of %s (flag std::atomic<bool>, result T, detail::AsyncTaskImpl<>)" % r)
    name_role = {f["name"]: f.get("role") for f in order}

    ctors = [c for c in _kids(rec) if c.get("kind") == "CXXConstructorDecl" and not c.get("isImplicit")]
    if len(ctors) != 1:
        raise Unsupported("expected exactly one user-declared constructor, found %d" % len(ctors))
    ctor = ctors[0]
    cb = _body(ctor)
    if cb is None or _kids(cb):
        raise Unsupported("constructor body is not empty (the task must be started by a member's constructor)")
    flag_init = any(x.get("kind") == "CXXBoolLiteralExpr" and x.get("value") is False
                    for x in _walk(role["jobFinished"]["node"]) if x is not role["jobFinished"]["node"])
    lam = None
    for ini in _kids(ctor):
        if ini.get("kind") != "CXXCtorInitializer":
            continue
        target = (ini.get("anyInit") or {}).get("name")
        lams = [x for x in _walk(ini) if x.get("kind") == "LambdaExpr"]
        if name_role.get(target) == "taskImpl":
            if len(lams) != 1:
                raise Unsupported("taskImpl is not initialised from exactly one lambda")
            lam = lams[0]
        elif lams:
            raise Unsupported("a lambda in the initialiser of %r" % target)
        elif name_role.get(target) == "jobFinished":
            bl = [x for x in _walk(ini) if x.get("kind") == "CXXBoolLiteralExpr"]
            flag_init = len(bl) == 1 and bl[0].get("value") is False
    if lam is None:
        raise Unsupported("the constructor does not initialise taskImpl from a lambda")
    lbody = [c for c in _kids(lam) if c.get("kind") == "CompoundStmt"]
    if not lbody:
        raise Unsupported("lambda without body")
    prog = []
    for st in _kids(lbody[-1]):
        s = _strip(st)
        k = _kids(s)
        if s.get("kind") == "BinaryOperator" and s.get("opcode") == "=" and len(k) == 2:
            lhs, rhs = _this_member(k[0], fields), _strip(k[1])
        elif s.get("kind") == "CXXOperatorCallExpr" and len(k) == 3 and \
                (_strip(k[0]).get("referencedDecl") or {}).get("name") == "operator=":
            lhs, rhs = _this_member(k[1], fields), _strip(k[2])
        else:
            raise Unsupported("statement of the task lambda is not an assignment to a data member (%s)" % s.get("kind"))
        r = name_role.get(lhs)
        if r == "retValue":
            calls = [x for x in _walk(rhs) if x.get("kind") == "DeclRefExpr" and (x.get("referencedDecl") or {}).get("name") == "fcn"]
            if rhs.get("kind") not in ("CallExpr", "CXXOperatorCallExpr") or len(calls) != 1:
                raise Unsupported("retValue is not assigned from fcn()")
            prog.append("assignRet")
        elif r == "jobFinished":
            if rhs.get("kind") != "CXXBoolLiteralExpr" or rhs.get("value") is not True:
                raise Unsupported("jobFinished is not assigned `true`")
            prog.append("setFinished")
        else:
            raise Unsupported("the task lambda assigns to %r" % lhs)

    def method(nm, kind="CXXMethodDecl"):
        ms = [c for c in _kids(rec) if c.get("kind") == kind and (kind != "CXXMethodDecl" or c.get("name") == nm)
              and not c.get("isImplicit")]
        if len(ms) != 1 or _body(ms[0]) is None:
            raise Unsupported("%s: expected exactly one definition" % nm)
        return [x for x in _kids(_body(ms[0]))]

    # ~AsyncTask
    dstm = method("~AsyncTask", "CXXDestructorDecl")
    dtor_waits = any(_is_this_call(s, "wait") for s in dstm)
    for s in dstm:
        if not _is_this_call(s, "wait") and any(_member_of(x, fields) for x in _walk(s)):
            raise Unsupported("the destructor body touches data members")
    # wait()
    wstm = method("wait")
    ok = False
    if len(wstm) == 1:
        s = _strip(wstm[0])
        k = _kids(s)
        if s.get("kind") == "CXXMemberCallExpr" and len(k) == 1:
            callee = _strip(k[0])
            if callee.get("kind") == "MemberExpr" and callee.get("name") == "wait" and _kids(callee) and \
                    name_role.get(_this_member(_kids(callee)[0], fields)) == "taskImpl":
                ok = True
    if not ok:
        raise Unsupported("wait() is not `taskImpl.wait();`")
    # finished()
    fstm = method("finished")
    if len(fstm) != 1 or fstm[0].get("kind") != "ReturnStmt":
        raise Unsupported("finished() is not a single return statement")
    mems = [name_role.get(_member_of(x, fields)) for x in _walk(fstm[0]) if _member_of(x, fields)]
    if mems != ["jobFinished"] or any(x.get("kind") == "UnaryOperator" for x in _walk(fstm[0])):
        raise Unsupported("finished() does not return jobFinished")
    # get()
    gstm = method("get")

    def is_ret(s):
        if s.get("kind") != "ReturnStmt" or not _kids(s):
            return False
        return name_role.get(_this_member(_kids(s)[0], fields)) == "retValue"

    def is_check_wait(s):
        if s.get("kind") != "IfStmt":
            return False
        k = _kids(s)
        if len(k) != 2:
            return False
        cond = _strip(k[0])
        if cond.get("kind") != "UnaryOperator" or cond.get("opcode") != "!":
            return False
        ms = [name_role.get(_member_of(x, fields)) for x in _walk(cond) if _member_of(x, fields)]
        if ms != ["jobFinished"]:
            return False
        then = k[1]
        if then.get("kind") == "CompoundStmt":
            if len(_kids(then)) != 1:
                return False
            then = _kids(then)[0]
        return _is_this_call(then, "wait")

    if len(gstm) == 2 and is_check_wait(gstm[0]) and is_ret(gstm[1]):
        get_kind = "checkThenWait"
    elif len(gstm) == 2 and _is_this_call(gstm[0], "wait") and is_ret(gstm[1]):
        get_kind = "alwaysWait"
    elif len(gstm) == 1 and is_ret(gstm[0]):
        get_kind = "noWait"
    else:
        raise Unsupported("get() has none of the shapes `if (!jobFinished) wait(); return retValue;` | `wait(); return retValue;` | `return retValue;`")
    return dict(order=[f["role"] for f in order if f.get("role")],
                members=["%s : %s" % (f["name"], f["type"]) for f in order],
                flag_init=flag_init, prog=prog, dtor_waits=dtor_waits, get_kind=get_kind)


def extract_schedule(repo):
    objs = _clang(repo, '#include "rkcommon/tasking/detail/TaskSys.cpp"\n', "c02_tu_ts.cpp",
                  ["RKCOMMON_TASKING_INTERNAL"], "rkcommon::tasking::detail::schedule")
    fns = {}
    for o in objs:
        k = o.get("kind")
        if k == "FunctionTemplateDecl":
            for c in _kids(o):
                if c.get("kind") == "FunctionDecl" and _body(c) is not None:
                    fns.setdefault(o.get("name"), c)
        elif k == "FunctionDecl" and _body(o) is not None:
            fns[o.get("name")] = o
    si = fns.get("schedule_internal")
    if si is None:
        raise Unsupported("schedule_internal not found")
    ex = [x for x in _walk(si) if x.get("kind") == "CXXMethodDecl" and x.get("name") == "ExecuteRange" and _body(x)]
    if len(ex) != 1:
        raise Unsupported("schedule_internal: expected one local task with an ExecuteRange body")
    self_delete = any(x.get("kind") == "CXXDeleteExpr" and _kids(x) and _strip(_kids(x)[0]).get("kind") == "CXXThisExpr"
                      for x in _walk(ex[0]))
    news = [x for x in _walk(_body(si)) if x.get("kind") == "CXXNewExpr"]
    top = [x for x in _kids(_body(si))]
    if not top:
        raise Unsupported("schedule_internal: empty body")
    last = _strip(top[-1])
    callee = None
    if last.get("kind") == "CallExpr" and _kids(last):
        c0 = _strip(_kids(last)[0])
        callee = c0.get("name") or (c0.get("referencedDecl") or {}).get("name")
    if callee == "scheduleDetachedTaskInternal":
        detached = True
    elif callee == "scheduleTaskInternal":
        detached = False
    else:
        raise Unsupported("schedule_internal does not end by handing the task to scheduleTaskInternal / scheduleDetachedTaskInternal")
    if not news:
        raise Unsupported("schedule_internal does not allocate the task with new")

    # scheduleTaskInternal: AddTaskSetToPipe, then optionally `if (GetNumTaskThreads() == 1) WaitforTask(task)`
    sti = fns.get("scheduleTaskInternal")
    if sti is None:
        raise Unsupported("scheduleTaskInternal has no body in TaskSys.cpp")
    stm = _kids(_body(sti))
    param = [c.get("name") for c in _kids(sti) if c.get("kind") == "ParmVarDecl"]
    idx_add = [i for i, s in enumerate(stm) if _strip(s).get("kind") == "CXXMemberCallExpr" and
               any(x.get("kind") == "MemberExpr" and x.get("name") == "AddTaskSetToPipe" for x in _walk(s))]
    if len(idx_add) != 1:
        raise Unsupported("scheduleTaskInternal: expected exactly one AddTaskSetToPipe statement")
    inline_nw = False
    for s in stm[idx_add[0] + 1:]:
        if s.get("kind") != "IfStmt" or len(_kids(s)) != 2:
            raise Unsupported("scheduleTaskInternal: unknown statement after AddTaskSetToPipe")
        cond, then = _strip(_kids(s)[0]), _kids(s)[1]
        ck = _kids(cond)
        lits = [x.get("value") for x in _walk(cond) if x.get("kind") == "IntegerLiteral"]
        is_cond = (cond.get("kind") == "BinaryOperator" and cond.get("opcode") == "==" and len(ck) == 2 and
                   sum(1 for x in _walk(cond) if x.get("kind") == "MemberExpr" and x.get("name") == "GetNumTaskThreads") == 1
                   and lits == ["1"])
        waits = [x for x in _walk(then) if x.get("kind") == "CXXMemberCallExpr" and
                 any(y.get("kind") == "MemberExpr" and y.get("name") == "WaitforTask" for y in _kids(x))]
        refs = [x for w in waits for x in _walk(w) if x.get("kind") == "DeclRefExpr" and
                (x.get("referencedDecl") or {}).get("name") in param]
        if is_cond and len(waits) == 1 and len(refs) == 1:
            inline_nw = True
        else:
            raise Unsupported("scheduleTaskInternal: the statement after AddTaskSetToPipe is not `if (GetNumTaskThreads() == 1) WaitforTask(task)`")

    record_after_add, reap_guarded = True, True
    if detached:
        sd = fns.get("scheduleDetachedTaskInternal")
        if sd is None:
            raise Unsupported("scheduleDetachedTaskInternal has no body in TaskSys.cpp")
        stm = _kids(_body(sd))

        def calls(s, nm):
            return any(x.get("kind") == "DeclRefExpr" and (x.get("referencedDecl") or {}).get("name") == nm for x in _walk(s))

        idx_add = [i for i, s in enumerate(stm) if _strip(s).get("kind") == "CallExpr" and calls(s, "scheduleTaskInternal")]
        idx_rec = [i for i, s in enumerate(stm) if any(x.get("kind") == "MemberExpr" and x.get("name") in ("push_back", "emplace_back")
                                                       for x in _walk(s))]
        if len(idx_add) != 1 or len(idx_rec) != 1:
            raise Unsupported("scheduleDetachedTaskInternal: expected one scheduleTaskInternal(task) and one push_back(task) statement")
        record_after_add = idx_add[0] < idx_rec[0]
        # deletes: only in a range-for over a local vector filled from the partition point of a
        # `!t->GetIsComplete()` predicate
        dels = [x for x in _walk(_body(sd)) if x.get("kind") == "CXXDeleteExpr"]
        guarded = bool(dels)
        preds = []
        for x in _walk(_body(sd)):
            if x.get("kind") == "CallExpr" and _kids(x):
                c0 = _strip(_kids(x)[0])
                if (c0.get("referencedDecl") or {}).get("name") in ("partition", "stable_partition"):
                    lams = [y for y in _kids(x) if _strip(y).get("kind") == "LambdaExpr"]
                    for l in lams:
                        lb = [c for c in _kids(_strip(l)) if c.get("kind") == "CompoundStmt"]
                        st = _kids(lb[-1]) if lb else []
                        if len(st) == 1 and st[0].get("kind") == "ReturnStmt" and _kids(st[0]):
                            e = _strip(_kids(st[0])[0])
                            if e.get("kind") == "UnaryOperator" and e.get("opcode") == "!" and _kids(e):
                                e2 = _strip(_kids(e)[0])
                                if e2.get("kind") == "CXXMemberCallExpr" and _kids(e2) and \
                                        _strip(_kids(e2)[0]).get("name") == "GetIsComplete":
                                    preds.append(x)
        part_vars = set()
        for x in _walk(_body(sd)):
            if x.get("kind") == "VarDecl" and any(p in list(_walk(x)) for p in preds):
                part_vars.add(x.get("name"))
        vecs = set()
        for x in _walk(_body(sd)):
            if x.get("kind") == "CXXMemberCallExpr" and _kids(x):
                c0 = _strip(_kids(x)[0])
                if c0.get("kind") == "MemberExpr" and c0.get("name") == "assign" and _kids(c0):
                    tgt = _strip(_kids(c0)[0])
                    args = _kids(x)[1:]
                    if len(args) == 2 and tgt.get("kind") == "DeclRefExpr":
                        a0 = [(y.get("referencedDecl") or {}).get("name") for y in _walk(args[0]) if y.get("kind") == "DeclRefExpr"]
                        a1 = [y.get("name") for y in _walk(args[1]) if y.get("kind") == "MemberExpr"]
                        if any(v in part_vars for v in a0) and a1 == ["end"]:
                            vecs.add((tgt.get("referencedDecl") or {}).get("name"))
        for d in dels:
            inside = False
            for fr in _walk(_body(sd)):
                if fr.get("kind") == "CXXForRangeStmt" and d in list(_walk(fr)):
                    rng = [(y.get("referencedDecl") or {}).get("name") for c in _kids(fr)[:1] for y in _walk(c)
                           if y.get("kind") == "DeclRefExpr"]
                    if any(v in vecs for v in rng):
                        inside = True
            guarded = guarded and inside
        reap_guarded = guarded
    return dict(self_delete=self_delete, detached=detached, record_after_add=record_after_add,
                reap_guarded=reap_guarded, inline_no_workers=inline_nw)


def _b(x):
    return "true" if x else "false"


def render_lean(at, sc):
    return "\n".join([
        "/- GENERATED by props/c02.py (tie T of property C02) from the clang-14 AST of",
        "   rkcommon/tasking/AsyncTask.h, rkcommon/tasking/detail/TaskSys.h, rkcommon/tasking/detail/TaskSys.cpp.",
        "   Regenerated from VERIF_REPO's tree before every build; the committed copy is a snapshot. Do not edit. -/",
        "import RkVerif.Model.C02",
        "namespace RkVerif.C02.Gen",
        "open RkVerif.C02",
        "",
        "/-- data members of AsyncTask<T> in declaration order: %s -/" % ", ".join(at["members"]),
        "def table : Table :=",
        "  { order := [%s]," % ", ".join("." + r for r in at["order"]),
        "    flagInit := %s," % _b(at["flag_init"]),
        "    taskProg := [%s]," % ", ".join("." + p for p in at["prog"]),
        "    dtorWaits := %s," % _b(at["dtor_waits"]),
        "    getKind := .%s }" % at["get_kind"],
        "",
        "/-- life cycle of schedule_internal's heap task (Internal backend) -/",
        "def schedCfg (workers : Nat) : SCfg :=",
        "  { workers := workers,",
        "    selfDelete := %s," % _b(sc["self_delete"]),
        "    detached := %s," % _b(sc["detached"]),
        "    recordAfterAdd := %s," % _b(sc["record_after_add"]),
        "    reapGuarded := %s," % _b(sc["reap_guarded"]),
        "    inlineNoWorkers := %s }" % _b(sc["inline_no_workers"]),
        "",
        "end RkVerif.C02.Gen",
        ""])


def regenerate(rep):
    """Hook of vlib/runner.py: rewrite lean/RkVerif/Gen/C02Table.lean from VERIF_REPO's tree (fail closed)."""
    try:
        at = extract_asynctask(core.REPO)
        sc = extract_schedule(core.REPO)
    except Unsupported as ex:
        rep.notes.append("shape extraction failed: %s" % ex)
        return dict(kind="shape-extraction-failed", error=str(ex),
                    note="AsyncTask.h / TaskSys.h / TaskSys.cpp use a construct the shape extractor does not understand; "
                         "the model is no longer justified for this tree")
    txt = render_lean(at, sc)
    with core.LeanLock():
        old = open(GEN_FILE).read() if os.path.exists(GEN_FILE) else None
        if old != txt:
            os.makedirs(os.path.dirname(GEN_FILE), exist_ok=True)
            with open(GEN_FILE + ".tmp", "w") as fh:
                fh.write(txt)
            os.replace(GEN_FILE + ".tmp", GEN_FILE)
    rep.coverage["shape_table"] = dict(asynctask=at, schedule=sc)
    bad = []
    if at["order"].index("taskImpl") < max(at["order"].index("retValue"), at["order"].index("jobFinished")):
        bad.append("taskImpl is declared before " + ("retValue" if at["order"].index("retValue") > at["order"].index("taskImpl") else "jobFinished"))
    if at["prog"] != ["assignRet", "setFinished"]:
        bad.append("task lambda statements are %r" % at["prog"])
    if not at["dtor_waits"]:
        bad.append("~AsyncTask does not wait")
    if at["get_kind"] == "noWait":
        bad.append("get() never waits")
    if not at["flag_init"]:
        bad.append("jobFinished is not initialised to false")
    if sc["self_delete"]:
        bad.append("schedule_internal's task deletes itself inside ExecuteRange")
    if sc["detached"] and not (sc["record_after_add"] and sc["reap_guarded"]):
        bad.append("the owner of detached tasks records before adding or deletes without GetIsComplete()")
    if not sc["inline_no_workers"]:
        bad.append("scheduleTaskInternal leaves the task queued when the scheduler has no worker threads")
    if bad:
        rep.notes.append("shape read from the source is not the proved one: " + "; ".join(bad))
    return None


# --------------------------------------------------------------------------------------------------
# Tie C: cases
# --------------------------------------------------------------------------------------------------

KINDS_S = ["plain", "heap", "slow"]
KINDS_A = ["int", "string", "vector", "tracked"]
KINDS_T = ["int", "string", "vector", "tracked", "slowtracked"]
SIZES_Q = [1, 1, 2, 3, 10, 100, 255, 256, 257, 300, 1000, 2000]
TASK_US = [0, 0, 50, 300, 1000, 3000]


def _seq(rng):
    n = rng.pick([1, 2, 2, 3, 3, 4, 5, 6])
    body = "".join(rng.pick("fffgggww") for _ in range(n - 1))
    r = rng.random()
    if r < 0.75:
        return body + "d"
    return body + rng.pick("fgw")


def _atask(rng):
    kind = rng.pick(KINDS_T + ["string", "slowtracked", "slowtracked"])
    return "atask %s %d %d %s %d" % (kind, rng.randrange(1, 500), rng.pick(TASK_US), _seq(rng), rng.randrange(1 << 20))


def _burst(rng, tier, backend, budget):
    """-> (line, closures)"""
    r = rng.random()
    if tier == "thorough" and r < 0.08:
        n = rng.pick([10000, 20000, 100000]) if backend in ("internal", "tbb", "debug") else rng.pick([5000, 10000, 20000])
    else:
        n = rng.pick(SIZES_Q)
    n = max(1, min(n, budget))
    kind = rng.pick(KINDS_S) if n <= 3000 else rng.pick(["plain", "heap"])
    if kind == "slow" and backend == "debug":
        n = min(n, 300)          # synchronous: n * 150 us on the calling thread
    nest = 1 if rng.chance(0.3) else 0
    return "sched %d %s %d" % (n, kind, nest), n * (1 + nest)


def gen_cases(rng, tier, h):
    backend = h["backend"]
    tsan = h.get("tsan", False)
    quick = tier == "quick"
    ncases = (26 if quick else 500) if not tsan else (14 if quick else 200)
    cases = []
    for k in range(ncases):
        c = []
        if rng.chance(0.6):
            # n = 1: a scheduler whose only thread is the caller
            c.append("init %d" % rng.pick([1, 1, 2, 3, 4, HW]))
        budget = 4000 if quick else 250000
        if tsan:
            budget = 600 if quick else 20000
        pending = False
        for _ in range(rng.pick([2, 3, 4, 5, 6])):
            r = rng.random()
            if r < 0.34:
                line, m = _burst(rng, tier, backend, budget)
                budget -= m
                if m > 0 and budget >= 0:
                    c.append(line)
                    pending = True
                    if rng.chance(0.25) and line.split()[3] == "0" and not any(l.startswith("sched ") and l.split()[3] != "0" for l in c[:-1]):
                        # re-initialise the tasking system while scheduled tasks may still be queued: they still run once.
                        # (Only after bursts whose closures do not schedule again themselves: a task calling schedule()
                        # concurrently with initTaskingSystem() races on the global scheduler handle - outside the usage
                        # discipline the property assumes, see ASSUMPTIONS.)
                        c.append("init %d" % rng.pick([1, 2, 3, 4, HW]))
                    if rng.chance(0.6):
                        c.append("wait_all")
                        pending = False
            elif r < 0.40 and not tsan and any(l.startswith("init ") and int(l.split()[1]) >= 3 for l in c[-1:] + c[:1]) \
                    and [l for l in c if l.startswith("init ")][-1].split()[1] not in ("1", "2") and not pending:
                c.append("dep %d" % rng.pick([1, 3, 8]))
            elif r < 0.45:
                m = rng.pick([1, 2, 5, 20])
                if budget >= 2 * m:
                    budget -= 2 * m
                    if rng.chance(0.5):
                        c.append("sched_lv %d" % m)      # named closures handed to schedule() twice each
                        c.append("wait_all")
                    else:
                        # closures whose owned state schedules a follow-up from its destructor, then more scheduling
                        c.append("sched_dtor %d" % m)
                        c.append("wait_all")
                        c.append("sched %d plain 0" % rng.pick([1, 3]))
                        c.append("wait_all")
            elif r < 0.52:
                c.append("async %s %d" % (rng.pick(KINDS_A), rng.randrange(1, 500)))
            else:
                c.append(_atask(rng))
        if pending:
            c.append("wait_all")
        if rng.chance(0.35) and not tsan:
            # the process exits normally while closures are still queued behind parked workers
            c.append("leave %d" % rng.pick([1, 3, 12, 40]))
        cases.append(c)
    return cases


def nontrivial(case):
    pend = 0
    for l in case:
        w = l.split()
        if w[0] == "sched":
            pend += int(w[1]) * (1 + int(w[3]))
        elif w[0] in ("sched_lv", "sched_dtor"):
            pend += 2 * int(w[1])
        elif w[0] == "wait_all":
            if pend >= 2:
                return True
            pend = 0
        elif w[0] == "async" and w[1] != "int":
            return True
        elif w[0] == "atask" and w[1] != "int" and len(w[4]) >= 2:
            return True
    return False


MANIFEST = dict(
    text=("Lean 4 theorems over executable models of AsyncTask (AsyncTaskM), of the life cycle of schedule()'s heap task in "
          "the Internal/enkiTS backend (ScheduleM, any number of tasks and workers) and of async()'s heap packaged_task "
          "(AsyncM): for every class of the well-formed shape and every interleaving of the task's steps with member "
          "construction, finished(), get(), wait() and destruction — no payload operation on unconstructed storage, "
          "jobFinished implies retValue holds fcn()'s value and is never written again, finished() never true earlier, every "
          "get() returns that value and does not enter wait() once finished, the destructor returns only after the task has "
          "completed (asynctask_safe, asynctask_finished_get_nonblocking, asynctask_wait_progress); no step reads or writes a "
          "released task allocation (schedule_no_uaf), every closure runs at most once and exactly once in every complete "
          "execution (schedule_once, schedule_once_complete), no stuck state and a strictly decreasing measure "
          "(schedule_enabled, schedule_terminates); the future receives the value and the packaged_task is released once "
          "(async_delivers). The shape (member declaration order, task statements, destructor/get() shape, task ownership) is "
          "re-read from the clang AST of AsyncTask.h / TaskSys.h / TaskSys.cpp on every run and the theorems are instantiated "
          "with it (source_table_wf, source_sched_wf, source_sched_live); the negations are proved for the pinned shapes "
          "(asynctask_pinned_unsafe, schedule_pinned_uaf, schedule_pinned_single_thread_stuck). The model is tied to the code "
          "by running the same op lines (bursts of up to 10^5 closures owning heap state, async with 4 result types, AsyncTask "
          "with 5 result types incl. a slow-to-default-construct lifetime-logged one, all controller sequences at random "
          "pauses; a normal process exit with closures still queued behind parked workers, observed by the parent) through the real library built for each of the four backends (ASan/UBSan, OpenMP/std::thread also TSan, "
          "fresh process per case) and through the compiled model. PARTIAL: TBB task_group/task_arena, OpenMP, std::thread, "
          "std::packaged_task/future are contracts that are observed on every run, not proved; 'eventually' is proved as "
          "absence of stuck states plus a decreasing measure, i.e. under scheduler fairness."),
    note=("Trusted: Lean kernel; axioms propext/Classical.choice/Quot.sound; the shape extractor (clang-14 AST, fails closed) and "
          "the correspondence harness (generators, canonicalisation, sanitizer runtimes); sequential consistency; the enkiTS "
          "pipes are abstracted (every queued partition is taken by exactly one thread — C01's obligation); one controlling "
          "thread per AsyncTask and schedule() only from the initialising thread or from inside tasks; timing-dependent "
          "windows are sampled by the runs (slow default constructor, task durations 0..3 ms), covered completely only by "
          "the proofs."),
    technique="Lean 4 proof (inductive invariants over all interleavings, induction over step sequences for any number of "
              "tasks, decide-witnesses for the pinned shapes) + shape table regenerated from the clang AST + differential "
              "correspondence check model vs real code on four backends under ASan/UBSan/TSan")
