"""C01 — parallel loops run every index exactly once and join before returning (four backends)."""
import os
import re

from vlib import core

ID = "C01"
MODULE = "RkVerif.Props.C01"
DRIVER = "drv_c01"
THOROUGH_MODULES = ["RkVerif.Gen.C01Table", "RkVerif.Model.C01", "RkVerif.Lemmas.C01", "RkVerif.Lemmas.C01Live", "RkVerif.Lemmas.C01Pipe", "RkVerif.Lemmas.C01Blocks"]

HW = os.cpu_count() or 1
_INIT = "rkcommon/tasking/detail/tasking_system_init.cpp"
_T = "rkcommon/tasking/detail/"
_OMP_ENV = {"OMP_MAX_ACTIVE_LEVELS": "1", "OMP_DYNAMIC": "FALSE", "OMP_WAIT_POLICY": "PASSIVE"}
_CASE_TIMEOUT = "120"

HARNESSES = [
    dict(name="c01int", backend="internal", src="harness/c01.cpp",
         repo_srcs=[_INIT, _T + "TaskSys.cpp", _T + "enkiTS/TaskScheduler.cpp"],
         flags=["-DRKCOMMON_TASKING_INTERNAL"], args=[_CASE_TIMEOUT], driver_args=["internal"]),
    dict(name="c01dbg", backend="debug", src="harness/c01.cpp", repo_srcs=[_INIT],
         flags=[], args=[_CASE_TIMEOUT], driver_args=["debug"]),
    dict(name="c01omp", backend="omp", src="harness/c01.cpp", repo_srcs=[_INIT],
         flags=["-fopenmp", "-DRKCOMMON_TASKING_OMP"], args=[_CASE_TIMEOUT], driver_args=["omp"], env=_OMP_ENV),
    dict(name="c01tbb", backend="tbb", src="harness/c01.cpp", repo_srcs=[_INIT],
         flags=["-DRKCOMMON_TASKING_TBB"], libs=["-ltbb"], args=[_CASE_TIMEOUT], driver_args=["tbb"]),
]
for _h in HARNESSES:
    _h["timeout"] = 3000

RULE = ("per backend (Internal/enkiTS, Debug, OpenMP, TBB; one ASan/UBSan binary each, a fresh process per case): "
        "init T (T in 1,2,3,4,5,8,hw) followed by 1-5 loops: parallel_for over all 8 index types with n from a boundary "
        "set (type minimum, -7, -1, 0, 1, T-1, T, T+1, T(T-1)+-1, 255/256/257, the maxima of unsigned char and short, "
        "1000, 4097, 10^5, 10^6; even and uneven body cost), nested parallel_for (outer <= 40, inner <= 300), serial_for, "
        "parallel_in_blocks_of for 11 block sizes (1..2^30) x 8 index types with n = k*BS-1, k*BS, k*BS+1, type maxima "
        "(UCHAR_MAX, SHRT_MAX, INT_MAX, UINT_MAX), negatives; parallel_foreach over vector / deque / pointer ranges "
        "(0..5000 elements, chunk boundaries of the deque); Internal backend additionally with the calling thread's pipe "
        "occupied by k in {100,250,255,256,257,300} queued task sets behind blocked workers (pipe-full path), and the "
        "LockLessMultiReadPipe driven directly by one writer and 1-15 readers. Observed: every index exactly once, no "
        "index outside [0,n) (guard-zoned counters), plain array written by the bodies complete after return, blocks "
        "partition [0,n) with no block > BS. Internal backend: event lists (partitions with thread numbers) of a directly "
        "driven enki::TaskScheduler (threads 1..16, set sizes 0..5000, min ranges, pipe occupancy 0..300, nested sets) are "
        "replayed through the model's step function. A case is non-trivial when it has a loop with more iterations than "
        "threads or a count <= 0 or a nested loop or a full pipe; distinct = distinct op sequences")
ASSUMPTIONS = [
    "tbb::parallel_for(first, last, f) and '#pragma omp parallel for' call f once for every index of [first, last), for "
    "nothing else, and return after all calls have finished (contract; observed on every run, not proved)",
    "sequential consistency for the scheduler's volatile / __sync accesses; the visibility of the bodies' effects to the "
    "caller under the C++ memory model is observed (plain array read after return), not proved",
    "liveness of the task-set path is proved for the model under scheduler fairness (no stuck state, every internal step "
    "decreases a well-founded measure, quiescent states let every join return); that a queued partition is actually found "
    "by some thread's index scan of the real pipes is observed (a hang is reported as a crash), not proved",
    "BLOCK_SIZE > 0 (now a static_assert); parallel_foreach is given a valid range (end reachable from begin)",
    "LP64: long, long long 64 bit; size_t = unsigned long; conversions to signed types are modular (gcc/clang)",
]
EXPLAIN = ("the real parallel_for / parallel_in_blocks_of / parallel_foreach / serial_for of this backend did not call the body "
           "exactly once per index of [0,n) (or called it outside, or the caller did not see all effects after return, or the "
           "blocks do not partition [0,n) within the block size), while the Lean model for which blocks_partition, "
           "serial_exactly_once, internal_index_roundtrip, foreach_addresses, sched_inv, sched_exactly_once and pipe_handoff "
           "are proved does")

TYPES = {"u8": (0, 255), "i16": (-32768, 32767), "i32": (-2 ** 31, 2 ** 31 - 1), "u32": (0, 2 ** 32 - 1),
         "i64": (-2 ** 63, 2 ** 63 - 1), "ll": (-2 ** 63, 2 ** 63 - 1), "ull": (0, 2 ** 64 - 1), "sz": (0, 2 ** 64 - 1)}
BLOCK_SIZES = [1, 2, 3, 7, 16, 100, 255, 256, 4096, 65536, 1073741824]

_small_blocks_compile = True


def regenerate(rep):
    """Does parallel_in_blocks_of still compile for the 8/16-bit index types?  (Before the fix it did not: the
    harness is then built without those instantiations and answers `compile-error` for them, so the remaining
    defects are still found and reported with a concrete input.)"""
    global _small_blocks_compile
    inc = core.ensure_version_h()
    probe = os.path.join(core.CACHE, "c01_probe.cpp")
    with open(probe, "w") as fh:
        fh.write('#include "rkcommon/tasking/parallel_for.h"\n'
                 'void p1(unsigned char n) { rkcommon::tasking::parallel_in_blocks_of<16>(n, [](unsigned char, unsigned char) {}); }\n'
                 'void p2(short n) { rkcommon::tasking::parallel_in_blocks_of<16>(n, [](short, short) {}); }\n')
    rc, o, e = core.sh(["g++", "-std=c++11", "-fsyntax-only", "-I" + core.REPO, "-I" + inc, probe], timeout=300)
    _small_blocks_compile = rc == 0
    for h in HARNESSES:
        h["flags"] = [f for f in h["flags"] if f != "-DC01_NO_SMALL_BLOCKS"]
        if not _small_blocks_compile:
            h["flags"].append("-DC01_NO_SMALL_BLOCKS")
    if not _small_blocks_compile:
        rep.notes.append("parallel_in_blocks_of does not compile for unsigned char / short: " + (e.strip().splitlines() or [""])[0][:300])
    return _regen_steal_table(rep)


GEN_TABLE = os.path.join(core.LEAN, "RkVerif", "Gen", "C01Table.lean")
_STEAL_BOUNDS = {   # loop condition on checkCount (white space removed) -> Lean expression in n = m_NumThreads
    "checkCount<m_NumThreads": "n",
    "checkCount+1<m_NumThreads": "n - 1",
    "checkCount<m_NumThreads-1": "n - 1",
    "checkCount<=m_NumThreads": "n + 1",
    "checkCount+1<=m_NumThreads": "n",
}


def _regen_steal_table(rep):
    """Read the bound and the probe expression of TryRunTask's steal loop from TaskScheduler.cpp and rewrite
    lean/RkVerif/Gen/C01Table.lean (fail closed: anything else than the recognised shapes is a broken tie)."""
    src = open(os.path.join(core.REPO, "rkcommon/tasking/detail/enkiTS/TaskScheduler.cpp")).read()
    src = re.sub(r"//[^\n]*", "", src)
    m = re.search(r"bool\s+TaskScheduler::TryRunTask\s*\([^)]*\)\s*\{(.*?)\n\}", src, re.S)
    if not m:
        return dict(kind="shape-extraction-failed", error="TaskScheduler::TryRunTask not found")
    body = re.sub(r"\s+", "", m.group(1))
    w = re.search(r"while\(!bHaveTask&&([^)]*)\)\{threadToCheck=([^;]*);if\(threadToCheck!=threadNum\)\{bHaveTask=m_pPipesPerThread\[threadToCheck\]\.ReaderTryReadBack\(&subTask\);\}\+\+checkCount;\}", body)
    if not w or "uint32_tcheckCount=0;" not in body:
        return dict(kind="shape-extraction-failed", error="the steal loop of TryRunTask does not have the recognised shape",
                    note="the model of the steal order (stealProbes) is no longer justified for this tree")
    cond, probe = w.group(1), w.group(2)
    if probe != "(hintPipeToCheck_io_+checkCount)%m_NumThreads" or cond not in _STEAL_BOUNDS:
        return dict(kind="shape-extraction-failed", error="steal loop: condition %r, probe %r not recognised" % (cond, probe))
    txt = ("-- GENERATED by props/c01.py (regenerate) from rkcommon/tasking/detail/enkiTS/TaskScheduler.cpp — do not edit.\n"
           "import RkVerif.Model.C01\nnamespace RkVerif.C01.Gen\n\n"
           "/-- loop bound of TryRunTask's steal loop as written in the source: `%s` -/\n"
           "def stealBound (n : Nat) : Nat := %s\n\nend RkVerif.C01.Gen\n" % (re.sub(r"([<=+-]+)", r" \1 ", cond), _STEAL_BOUNDS[cond]))
    with core.LeanLock():
        old = open(GEN_TABLE).read() if os.path.exists(GEN_TABLE) else None
        if old != txt:
            with open(GEN_TABLE + ".tmp", "w") as fh:
                fh.write(txt)
            os.replace(GEN_TABLE + ".tmp", GEN_TABLE)
    rep.coverage["steal_loop"] = dict(condition=cond, probe=probe, bound=_STEAL_BOUNDS[cond])
    return None


def _threads(rng):
    return rng.pick([1, 2, 3, 4, 4, 5, 8, min(HW, 16)])


def _n_for(rng, ty, t, big):
    lo, hi = TYPES[ty]
    cands = [0, 1, t - 1, t, t + 1, 2 * t, t * (t - 1) - 1, t * (t - 1), t * (t - 1) + 1, 13, 100, 255, 256, 257, 1000, 1001,
             4097, 32767, rng.randint(0, 3000)]
    if lo < 0:
        cands += [-1, -1, -7, lo, -rng.randint(2, 100000)]
    if big:
        cands += [100000, 65536, 99991]
    if big and rng.chance(0.15):
        cands += [1000000]
    n = rng.pick(cands)
    if n > hi:
        n = hi
    if n < lo:
        n = lo
    # never a positive count that cannot be executed in a test (unsigned/long maxima are covered by the proofs)
    if n > 1000000:
        n = 1000000
    return n


def _loop(rng, t, backend):
    r = rng.random()
    ty = rng.pick(list(TYPES))
    if r < 0.40:
        kind = rng.pick(["plain", "plain", "uneven"])
        n = _n_for(rng, ty, t, kind == "plain")
        if kind == "uneven" and n > 20000:
            n = 20000
        return "pfor %s %d %s" % (ty, n, kind)
    if r < 0.50:
        n = _n_for(rng, ty, t, False)
        n = max(min(n, 40), -3)
        ty2 = rng.pick(["i32", "sz"])
        m = rng.pick([0, 1, 2, t, t + 1, 13, 100, 300] + ([-1] if ty2 == "i32" else []))
        return "pnest %s %d %s %d" % (ty, n, ty2, m)
    if r < 0.57:
        return "sfor %s %d" % (ty, _n_for(rng, ty, t, True))
    if r < 0.82:
        lo, hi = TYPES[ty]
        bs = rng.pick(BLOCK_SIZES)
        k = rng.pick([0, 1, 2, 3, t, 17, 100, 1000])
        n = rng.pick([k * bs - 1, k * bs, k * bs + 1, hi if hi < 2 ** 33 else 255, 1, bs - 1, bs + 1, -1, -bs, lo])
        n = max(lo, min(hi, n))
        if n > 0 and n // bs > 50000:  # keep the number of blocks executable
            n = bs * 50000 + 1 if bs * 50000 + 1 <= hi else hi
            if n // bs > 50000:
                n = min(hi, 50000)
        return "pblocks %s %d %d" % (ty, bs, n)
    cont = rng.pick(["vec", "deq", "deq", "ptr"])
    n = rng.pick([0, 1, 2, 31, 32, 33, 63, 64, 65, 100, 1000, 1000, 5000, rng.randint(0, 700)])
    return "pforeach %s %d" % (cont, n)


def gen_cases(rng, tier, h):
    backend = h["backend"]
    ncases = {"quick": 90, "thorough": 1500}[tier]
    if backend == "internal":
        ncases = {"quick": 160, "thorough": 3000}[tier]
    cases = []
    for _ in range(ncases):
        t = _threads(rng)
        c = []
        if rng.chance(0.9):
            c.append("init %d" % t)
        else:
            t = HW if backend != "debug" else 1  # first use initialises with the default
        filled = False
        if backend == "internal" and rng.chance(0.3):
            c.append("fillpipe %d" % rng.pick([100, 250, 255, 256, 256, 257, 300]))
            filled = True
        for _ in range(rng.randint(1, 5)):
            op = _loop(rng, t, backend)
            if filled:
                # the calling thread runs everything itself while the workers are blocked: keep it small
                w = op.split()
                if w[0] in ("pfor", "sfor") and int(w[2]) > 20000:
                    w[2] = "20000"
                    op = " ".join(w)
            c.append(op)
            if backend in ("tbb", "debug") and not filled and rng.chance(0.2):
                # a loop whose body throws (these two backends hand the exception to the caller), then the same kind of
                # loop again: nothing of the failed loop may be left behind
                ty = rng.pick(["i32", "u32", "i64", "sz"])
                n = rng.pick([1, 7, 100, 1000])
                c.append("pforthrow %s %d %d" % (ty, n, rng.randrange(n)))
                c.append("pfor %s %d plain" % (ty, rng.pick([1, 7, 257, 1000])))
        if filled and rng.chance(0.8):
            c.append("release")
            if rng.chance(0.5):
                c.append(_loop(rng, t, backend))
        if backend == "internal" and rng.chance(0.05):
            c.append("pipe %d %d" % (rng.pick([1, 2, 3, 7, 15]), rng.pick([1, 7, 8, 9, 100, 1000, 20000])))
        cases.append(c)
    if backend == "internal":
        # just beyond INT_MAX: two task sets (2^31-1 and a few indices); the 32-bit chunking of the Internal backend
        cases.append(["init %d" % min(HW, 16), "pforbig %s %d" % (rng.pick(["sz", "ull", "i64", "ll"]), (1 << 31) + rng.pick([0, 1, 5, 1000]))])
    if tier == "thorough" and backend == "internal":
        # a count that does not fit 32 bits: three task sets (2^31-1, 2^31-1, 7 indices)
        cases.append(["init %d" % min(HW, 16), "pforbig sz 4294967301"])
        cases.append(["init %d" % min(HW, 16), "pforbig ll 4294967296"])
    return cases


def nontrivial(case):
    t = 1
    full = False
    for l in case:
        w = l.split()
        if w[0] == "init":
            t = max(1, int(w[1]))
        elif w[0] == "fillpipe" and int(w[1]) >= 256:
            full = True
        elif w[0] in ("pfor", "sfor") and (int(w[2]) > t or int(w[2]) <= 0):
            return True
        elif w[0] == "pnest":
            return True
        elif w[0] == "pblocks" and (int(w[3]) > int(w[2]) or int(w[3]) <= 0):
            return True
        elif w[0] == "pforeach" and int(w[2]) > 32:
            return True
    return full


# ----------------------------------------------------------------------------- trace validation (Internal backend)

def _trace_ops(rng, tier):
    n = 120 if tier == "quick" else 2500
    ops = ["enki 4 1000 1 0 0 0", "enki 4 1000 1 256 0 0", "enki 3 13 1 300 0 0", "enki 4 200 1 0 50 30",
           "enki 1 100 1 0 0 0", "enki 8 5000 7 250 1000 100", "enki 3 1001 1 257 0 0", "enki 9 997 1 256 100 20"]
    for _ in range(n):
        t = rng.pick([1, 2, 3, 4, 5, 8, 9, 12, 16])
        s = rng.pick([0, 1, 2, t - 1, t, t + 1, 13, 100, 255, 1000, 1001, 4097, rng.randint(0, 3000)])
        minr = rng.pick([1, 1, 1, 2, 7, 64])
        fill = rng.pick([0, 0, 0, 100, 250, 254, 255, 256, 257, 300])
        nest = rng.pick([0, 0, 0, 1, 7, 50, 500])
        m = rng.pick([0, 1, 5, 30, 100])
        if nest and s * m / max(nest, 1) > 20000:
            m = 5
        ops.append("enki %d %d %d %d %d %d" % (t, max(s, 0), minr, fill, nest, m))
    return ops


def extra_stage(rep, ctx):
    """Trace validation: every event list observed on the real enki::TaskScheduler must be an execution of the
    model (replayed action by action through `step false`; the replay ends in a state in which every waiter's
    condition holds and every index has been executed exactly once)."""
    h = HARNESSES[0]
    hb, hout = core.build_harness(h["name"], h["src"], h["repo_srcs"], h["flags"], core.SAN, "c++11", (), "-O1", ())
    drv = core.driver_path(DRIVER)
    if hb is None or not os.path.exists(drv):
        return None
    rng, tier = ctx["rng"], ctx["tier"]
    ops = _trace_ops(rng, tier)
    rc, out, err = core.run_prog(hb, "\n".join(ops) + "\n", timeout=1500, args=["trace"])
    traces = re.split(r"# trace \d+\n", out)[1:]
    found = False
    if rc != 0:
        k = len(traces)
        rep.violation(dict(kind="trace-harness-crash", op=ops[min(k, len(ops) - 1)], detail=core.sanitizer_summary(err) or "rc=%s" % rc,
                           stderr=err[-2500:], explanation="the directly driven enki::TaskScheduler crashed / was aborted by a sanitizer"))
        found = True
    text = "".join("# case %d\n%s" % (k, t) for k, t in enumerate(traces))
    rcm, mout, merr = core.sh([drv, "internal"], input=text.encode(), timeout=1500)
    res = core.split_output(mout)
    events = 0
    bad = 0
    distinct = []
    for k, t in enumerate(traces):
        lines = [l for l in t.splitlines() if l.strip()]
        events += len(lines)
        got = res.get(k, [])
        ok = rcm == 0 and len(got) == len(lines) and all(g == "ok" for g in got) and lines and lines[-1] == "tend"
        if ok:
            distinct.append(core.case_hash([ops[k]] + lines[:50]))
            continue
        bad += 1
        if bad > 2:
            continue
        j = next((j for j, g in enumerate(got) if g != "ok"), len(got))
        rep.violation(dict(kind="trace-not-an-execution-of-the-model", op=ops[k], first_bad_event=lines[j] if j < len(lines) else None,
                           model_says=got[j] if j < len(got) else "no output", events_before=lines[max(0, j - 12):j],
                           ops=[ops[k]],
                           explanation="the partitions the real enki::TaskScheduler executed (with the calling thread's pipe "
                                       "occupied as given) are not an execution of the Sched model for which sched_inv / "
                                       "sched_exactly_once are proved: an index outside the set, an index run twice or not at "
                                       "all, or WaitforTask returning before the set was complete"))
        found = True
    cov = rep.coverage
    cov["trace_validation"] = dict(traces=len(traces), events=events, rejected=bad)
    core.log("[C01] trace validation: %d traces, %d events, %d rejected" % (len(traces), events, bad))
    return dict(evaluations=len(traces), distinct=distinct, found_input=found,
                samples=[dict(harness="c01int trace", ops=[ops[3]], impl=traces[3].splitlines()[:30])] if len(traces) > 3 else [])


MANIFEST = dict(
    text=("Lean 4 theorems over an executable model of rkcommon's parallel loops: (1) the block arithmetic of "
          "parallel_in_blocks_of under C integer semantics (promotions, wrap, signed overflow = undefined) yields, for all 8 index "
          "types, every count of the type and every positive int block size, consecutive non-empty blocks from 0 to n of size <= BS "
          "and none for n <= 0, with no overflow side condition; the serial loop of the Debug backend / serial_for calls the body "
          "on 0..n-1 once each for every count incl. the type maxima; the Internal backend's 32-bit chunking and index conversions are "
          "the identity on the whole range of every index type; parallel_foreach addresses the i-th element for every chunked "
          "storage layout. (2) An abstract transition system of the enkiTS task-set path (AddTaskSetToPipe, SplitAndAddTask incl. the "
          "pipe-full branch, TryRunTask re-splitting, running-count arithmetic, WaitforTask; thread identity abstracted, so every "
          "thread count, pipe capacity, interleaving and nesting is covered): inductive invariant 'executed + queued + in flight + "
          "to be split is a partition of [0,setSize) and the running count equals the partitions outstanding', hence a waiter that "
          "reads count 0 after its add returned finds every index executed exactly once and nothing executing; liveness under "
          "scheduler fairness: no stuck state while anything is outstanding, every internal step strictly decreases a "
          "lexicographic (well-founded) measure, and in a quiescent state every join may return (sched_no_stuck, "
          "sched_step_decreases, sched_terminates, sched_quiescent_join; task sets added with m_MinRange >= 1). (3) The pipe's flag "
          "protocol: every written item is claimed by at most one reader and copied intact. The model is tied to the code by running "
          "the same generated loops (8 index types, boundary counts, nesting, uneven cost, occupied pipe) through the real library "
          "built for each of the four backends under ASan/UBSan and through the compiled model, and by replaying the partitions "
          "observed on a directly driven enki::TaskScheduler through the model's step function (trace validation). "
          "PARTIAL: that TBB and OpenMP run every index once and join, and memory visibility under the C++ memory model, are "
          "observed on every run, not proved. Four defects were found and fixed (negative / >= 2^32 counts on the Internal backend, "
          "the pipe-full range adjustment, parallel_foreach on non-contiguous ranges, overflow / non-compiling block arithmetic); "
          "the negation of the invariant is proved on the witness of the unfixed pipe-full transition."),
    note=("Trusted: Lean kernel; axioms propext/Classical.choice/Quot.sound; the hand-written model is tied to the code only by the "
          "correspondence harness and the trace replay; tbb::parallel_for and '#pragma omp parallel for' are contracts (observed); "
          "the scheduler is modelled under sequential consistency with each AtomicAdd / pipe operation atomic; the pipe's index "
          "arithmetic is abstracted to a free choice of slot (safety of the hand-off only, no liveness); counts above 10^6 are "
          "covered by the proofs, and by one 2^32+5 run in the thorough tier, not by the quick tier's tests."),
    technique="Lean 4 proof (inductive invariants over all interleavings, induction over loops, C integer semantics) + differential "
              "correspondence check model vs real code on four backends + trace validation of the real scheduler against the model")
