"""C08 — IntrusivePtr / RefCountedObject: use count = creator's reference + live handles; destroyed exactly once
at the last release; handle equality = same object.  Model: lean/RkVerif/Model/C08.lean (atomic steps),
theorems: lean/RkVerif/Props/C08.lean, tie: harness/c08.cpp (ASan/UBSan and TSan builds) + atomic-ness table."""
import os
import re

from vlib import core

ID = "C08"
MODULE = "RkVerif.Props.C08"
DRIVER = "drv_c08"
THOROUGH_MODULES = ["RkVerif.Model.C08", "RkVerif.Lemmas.C08"]

HARNESSES = [
    dict(name="c08", src="harness/c08.cpp", mode="asan", timeout=900),
    dict(name="c08_tsan", src="harness/c08.cpp", san=core.TSAN, mode="tsan", timeout=900),
]

RULE = ("random operation histories over a pool of <=5 objects (each with a member handle), 4 Ref<Base> + 2 Ref<Node> handle "
        "variables: all constructors (default, copy, move, converting derived->base, raw, raw nullptr), destructor, copy/move/"
        "converting/raw/null assignment incl. self-assignment, self-move, moved-from and empty sources, sources and targets that "
        "are members of the object being released (list pop / unlink), explicit refInc/refDec; after every op: useCount of every "
        "live object, destructor counts, target of every handle, operator==/!=/bool of handle pairs.  Multi-threaded cases: 2-4 "
        "threads each owning 4 handles run random programs concurrently (copy/move/raw/null/destroy/construct, refInc/refDec pairs) "
        "on shared objects, under ASan/UBSan and under TSan; final counts/destructor counts/handle targets compared with the model "
        "run under a round-robin interleaving of atomic steps.  A case is non-trivial when it has >= 6 state-changing ops and at least "
        "one release; distinct = distinct op sequences")
ASSUMPTIONS = [
    "sequential consistency for the std::atomic counter; std::atomic<long long> ++/-- are single atomic read-modify-writes (checked on the source text)",
    "usage discipline: constructors on raw storage, everything else on constructed handles; a thread names only handles it owns; raw pointers "
    "are used only while a counted reference to the object is held; refDec through a raw pointer returns a reference obtained through a raw pointer",
    "operator new returns an address not used by a live object; counts stay below 2^63",
]
EXPLAIN = ("use counts, destructor counts, handle targets or handle comparisons of the real IntrusivePtr/RefCountedObject differ from the "
           "Lean model for which count_inv, destroy_once, no_touch_after_destroy, eq_iff_same_object and self_assign_safe are proved "
           "(a sanitizer report counts as a difference)")

BSLOTS = ["b0", "b1", "b2", "b3"]
DSLOTS = ["d0", "d1"]
MAXOBJ = 5


# ------------------------------------------------------------------ reference bookkeeping used only to generate
# histories that respect the usage discipline (it is not an oracle: the oracle is the Lean model)

class Sim:
    def __init__(self):
        self.cells = {}          # name -> None (no handle) | -1 (null) | object id
        self.alive = []
        self.manual = []
        self.next = []           # member handle: -1 | id (meaningful while alive)

    def val(self, loc):
        if loc[0] == "m":
            return self.next[int(loc[1:])]
        return self.cells.get(loc)

    def put(self, loc, v):
        if loc[0] == "m":
            self.next[int(loc[1:])] = v
        else:
            self.cells[loc] = v

    def refs(self, o):
        n = self.manual[o]
        n += sum(1 for v in self.cells.values() if v == o)
        n += sum(1 for k in range(len(self.alive)) if self.alive[k] and self.next[k] == o)
        return n

    def hold(self, o):
        """references not held by member handles"""
        return self.manual[o] + sum(1 for v in self.cells.values() if v == o)

    def settle(self):
        ch = True
        while ch:
            ch = False
            for o in range(len(self.alive)):
                if self.alive[o] and self.refs(o) == 0:
                    self.alive[o] = False
                    self.next[o] = -1
                    ch = True

    def live(self):
        return [o for o in range(len(self.alive)) if self.alive[o]]

    def made(self, names):
        return [n for n in names if self.cells.get(n) is not None]

    def unmade(self, names):
        return [n for n in names if self.cells.get(n) is None]

    # ---- usage discipline of one op line (same conditions the generator uses)
    def _typ(self, loc):
        return "d" if loc[0] == "d" else "b"

    def _is_slot(self, loc):
        return loc in BSLOTS or loc in DSLOTS or re.fullmatch(r"t[1-4]s[0-3]", loc) is not None

    def _src_ok(self, loc):
        if loc[0] == "m":
            return loc[1:].isdigit() and int(loc[1:]) < len(self.alive) and self.alive[int(loc[1:])]
        return self._is_slot(loc) and self.cells.get(loc) is not None

    def _tgt_ok(self, loc):
        if loc[0] == "m":
            return self._src_ok(loc) and self.hold(int(loc[1:])) >= 1
        return self._src_ok(loc)

    def _obj_ok(self, k):
        return k.isdigit() and int(k) < len(self.alive) and self.alive[int(k)]

    def check(self, w):
        op, n = w[0], len(w)
        fresh = lambda x: self._is_slot(x) and self.cells.get(x) is None
        if op == "new":
            return n == 1 and len(self.alive) < 12
        if op == "watchall":
            return n == 2
        if op in ("incmany", "decmany"):
            return n == 3
        if op in ("ctor_def", "ctor_rawnull"):
            return n == 2 and fresh(w[1])
        if op in ("ctor_copy", "ctor_move"):
            return n == 3 and fresh(w[1]) and self._src_ok(w[2]) and self._typ(w[1]) == self._typ(w[2])
        if op in ("ctor_conv", "ctor_convmove"):
            return n == 3 and fresh(w[1]) and self._typ(w[1]) == "b" and w[2] in DSLOTS and self._src_ok(w[2])
        if op == "ctor_raw":
            return n == 3 and fresh(w[1]) and self._obj_ok(w[2])
        if op == "dtor":
            return n == 2 and self._is_slot(w[1]) and self.cells.get(w[1]) is not None
        if op in ("copy", "move"):
            return n == 3 and self._tgt_ok(w[1]) and self._src_ok(w[2]) and self._typ(w[1]) == self._typ(w[2])
        if op == "selfmove":
            return n == 2 and self._tgt_ok(w[1])
        if op in ("conv", "convmove"):
            return n == 3 and self._tgt_ok(w[1]) and self._typ(w[1]) == "b" and w[2] in DSLOTS and self._src_ok(w[2])
        if op == "raw":
            return n == 3 and self._tgt_ok(w[1]) and self._obj_ok(w[2])
        if op == "null":
            return n == 2 and self._tgt_ok(w[1])
        if op == "inc":
            return n == 2 and self._obj_ok(w[1])
        if op == "dec":
            return n == 2 and self._obj_ok(w[1]) and self.manual[int(w[1])] > 0
        return False

    def apply(self, w):
        op = w[0]
        if op == "new":
            self.alive.append(True); self.manual.append(1); self.next.append(-1)
        elif op in ("ctor_def", "ctor_rawnull"):
            self.put(w[1], -1)
        elif op in ("ctor_copy", "ctor_conv"):
            self.put(w[1], self.val(w[2]))
        elif op in ("ctor_move", "ctor_convmove"):
            self.put(w[1], self.val(w[2])); self.put(w[2], -1)
        elif op == "ctor_raw":
            self.put(w[1], int(w[2]))
        elif op == "dtor":
            self.cells[w[1]] = None
        elif op in ("copy", "conv"):
            self.put(w[1], self.val(w[2]))
        elif op == "convmove":
            v = self.val(w[2]); self.put(w[2], -1); self.put(w[1], v)
        elif op == "move":
            if w[1] != w[2]:
                v = self.val(w[2]); self.put(w[2], -1); self.put(w[1], v)
        elif op == "selfmove":
            self.put(w[1], -1)
        elif op == "raw":
            self.put(w[1], int(w[2]))
        elif op == "null":
            self.put(w[1], -1)
        elif op == "inc":
            self.manual[int(w[1])] += 1
        elif op == "dec":
            self.manual[int(w[1])] -= 1
        self.settle()


def _gen_seq(rng, n_ops):
    s = Sim()
    out = []

    def emit(*w):
        w = [str(x) for x in w]
        s.apply(w)
        out.append(" ".join(w))

    emit("new")
    if rng.chance(0.35):
        emit("watchall", "on")    # pointee destructors inspect (copy and drop) every live handle variable
    tries = 0
    while len(out) < n_ops and tries < n_ops * 30:
        tries += 1
        live = s.live()
        # handle locations usable as a source / as an assignment target
        bsrc = s.made(BSLOTS) + ["m%d" % o for o in live]
        btgt = s.made(BSLOTS) + ["m%d" % o for o in live if s.hold(o) >= 1]
        dsrc = s.made(DSLOTS)
        r = rng.random()
        if r < 0.07:
            if len(s.alive) < MAXOBJ:
                emit("new")
        elif r < 0.27:  # constructors
            useD = rng.chance(0.3)
            free = s.unmade(DSLOTS if useD else BSLOTS)
            if not free:
                continue
            x = rng.pick(free)
            src = dsrc if useD else bsrc
            k = rng.randrange(6)
            if k == 0: emit("ctor_def", x)
            elif k == 1: emit("ctor_rawnull", x)
            elif k == 2 and live: emit("ctor_raw", x, rng.pick(live))
            elif k == 3 and src: emit("ctor_copy", x, rng.pick(src))
            elif k == 4 and src: emit("ctor_move", x, rng.pick(src))
            elif k == 5 and not useD and dsrc: emit(rng.pick(["ctor_conv", "ctor_convmove"]), x, rng.pick(dsrc))
        elif r < 0.37:
            made = s.made(BSLOTS + DSLOTS)
            if made:
                emit("dtor", rng.pick(made))
        elif r < 0.57:  # copy assignment
            useD = rng.chance(0.2)
            tgt, src = (dsrc, dsrc) if useD else (btgt, bsrc)
            if tgt and src:
                x = rng.pick(tgt)
                y = x if rng.chance(0.12) else rng.pick(src)
                emit("copy", x, y)
        elif r < 0.72:  # move assignment
            useD = rng.chance(0.2)
            tgt, src = (dsrc, dsrc) if useD else (btgt, bsrc)
            if tgt and src:
                x = rng.pick(tgt)
                if rng.chance(0.12):
                    emit("selfmove", x)
                else:
                    y = rng.pick(src)
                    if y != x:
                        emit("move", x, y)
        elif r < 0.78:
            if btgt and dsrc:
                emit(rng.pick(["conv", "conv", "convmove"]), rng.pick(btgt), rng.pick(dsrc))
        elif r < 0.88:
            tgt = btgt + dsrc
            if tgt:
                x = rng.pick(tgt)
                cur = s.val(x)
                nxt = s.next[cur] if (cur is not None and cur >= 0 and s.alive[cur]) else -1
                if nxt is not None and nxt >= 0 and s.alive[nxt] and rng.chance(0.5):
                    emit("raw", x, nxt)       # chain walk through a raw pointer: x = x->next.ptr
                elif live and rng.chance(0.7):
                    emit("raw", x, rng.pick(live))
                else:
                    emit("null", x)
        elif r < 0.93:
            if live:
                emit("inc", rng.pick(live))
        else:
            cand = [o for o in live if s.manual[o] > 0]
            if cand:
                emit("dec", rng.pick(cand))
    return out


def _gen_thread_prog(rng, tid, init_vals, nobj, n_ops):
    """Program of thread `tid` over its own four handles; init_vals: their targets at the start (-1 null, None no handle)."""
    slots = ["t%ds%d" % (tid, j) for j in range(4)]
    val = dict(zip(slots, init_vals))
    minc = [0] * nobj
    ops = []

    def held():
        return sorted({v for v in val.values() if v is not None and v >= 0} | {k for k in range(nobj) if minc[k] > 0})

    tries = 0
    while len(ops) < n_ops and tries < n_ops * 30:
        tries += 1
        made = [x for x in slots if val[x] is not None]
        free = [x for x in slots if val[x] is None]
        r = rng.random()
        if r < 0.30 and made:
            x = rng.pick(made); y = rng.pick(made)
            val[x] = val[y]; ops.append("copy,%s,%s" % (x, y))
        elif r < 0.45 and made:
            x = rng.pick(made); y = rng.pick(made)
            if x != y:
                val[x] = val[y]; val[y] = -1; ops.append("move,%s,%s" % (x, y))
        elif r < 0.58 and made:
            x = rng.pick(made); h = held()
            if h and rng.chance(0.75):
                k = rng.pick(h); val[x] = k; ops.append("raw,%s,%d" % (x, k))
            elif sum(1 for v in val.values() if v is not None and v >= 0) > 1 or rng.chance(0.3):
                val[x] = -1; ops.append("null,%s" % x)
        elif r < 0.68 and made and len(made) > 1:
            x = rng.pick(made); val[x] = None; ops.append("dtor,%s" % x)
        elif r < 0.84 and free:
            x = rng.pick(free); k = rng.randrange(4); h = held()
            if k == 0 and made:
                y = rng.pick(made); val[x] = val[y]; ops.append("ctor_copy,%s,%s" % (x, y))
            elif k == 1 and made:
                y = rng.pick(made); val[x] = val[y]; val[y] = -1; ops.append("ctor_move,%s,%s" % (x, y))
            elif k == 2 and h:
                o = rng.pick(h); val[x] = o; ops.append("ctor_raw,%s,%d" % (x, o))
            elif k == 3:
                val[x] = -1; ops.append("ctor_def,%s" % x)
        elif r < 0.93:
            h = held()
            if h:
                k = rng.pick(h); minc[k] += 1; ops.append("inc,%d" % k)
        else:
            c = [k for k in range(nobj) if minc[k] > 0]
            if c:
                k = rng.pick(c); minc[k] -= 1; ops.append("dec,%d" % k)
    # give back this thread's raw references
    for k in range(nobj):
        for _ in range(minc[k]):
            ops.append("dec,%d" % k)
    return ops, val


def _gen_mt(rng, n_ops):
    nobj = rng.randint(1, 3)
    nthr = rng.randint(2, 4)
    out = ["new"] * nobj
    if nobj >= 2 and rng.chance(0.5):
        out.append("raw m0 1")            # destroying object 0 in a thread releases object 1 from there
    progs = []
    finals = {}
    for t in range(1, nthr + 1):
        init = []
        for j in range(4):
            x = "t%ds%d" % (t, j)
            r = rng.random()
            if j == 0 or r < 0.6:
                k = rng.randrange(nobj); out.append("ctor_raw %s %d" % (x, k)); init.append(k)
            elif r < 0.8:
                out.append("ctor_def %s" % x); init.append(-1)
            else:
                init.append(None)
        p, val = _gen_thread_prog(rng, t, init, nobj, n_ops)
        progs.append("tp %d %s" % (t, " ".join(p)))
        finals[t] = val
    # the creator drops its references to some objects: the last release then happens inside a thread
    for k in range(nobj):
        if rng.chance(0.7):
            out.append("dec %d" % k)
    out.extend(progs)
    out.append("mtrun")
    # afterwards the main thread destroys the threads' handles one by one (every state line is compared)
    for t in range(1, nthr + 1):
        for j in range(4):
            x = "t%ds%d" % (t, j)
            if finals[t][x] is not None:
                out.append("dtor %s" % x)
    return out


def gen_cases(rng, tier, h):
    quick = tier == "quick"
    cases = []
    if h["mode"] == "asan":
        for _ in range(1500 if quick else 20000):
            cases.append(_gen_seq(rng, rng.randint(6, 45)))
        for _ in range(30 if quick else 300):
            cases.append(_gen_mt(rng, 500 if quick else 2000))
        if not quick:
            # more than 2^31 / 2^32 references to one object at the same time (thorough tier: ~1 minute)
            for n in (2 ** 31 + 5, 2 ** 32 + 3):
                cases.append(["new", "incmany 0 %d" % n, "ctor_raw b0 0", "ctor_copy b1 b0", "dtor b0", "decmany 0 %d" % n, "dtor b1", "dec 0"])
        for _ in range(4 if quick else 40):
            # simultaneous first acquisitions of an object whose only reference is its creator's
            cases.append(["new", "acq_race 0 %d" % (4000 if quick else 40000), "ctor_raw b0 0", "dec 0", "dtor b0"])
    else:
        for _ in range(100 if quick else 1500):
            cases.append(_gen_seq(rng, rng.randint(6, 45)))
        for _ in range(30 if quick else 300):
            cases.append(_gen_mt(rng, 500 if quick else 2000))
    return cases


def disciplined(case, original=None):
    """True when every line of a (shrunk) case still respects the usage discipline, so that a failure of the real code
    on it is a failure of the library and not of the history.  Multi-threaded cases may only lose lines after `mtrun`."""
    if any(l.startswith("tp ") or l == "mtrun" for l in (original or case)):
        if original is None:
            return True
        k = original.index("mtrun") + 1 if "mtrun" in original else len(original)
        return case[:k] == original[:k]
    s = Sim()
    for l in case:
        w = l.split()
        if not w or not s.check(w):
            return False
        s.apply(w)
    return True


_REL = ("dtor", "copy", "move", "selfmove", "conv", "convmove", "ctor_convmove", "raw", "null", "dec", "mtrun")


def nontrivial(case):
    ops = [l.split()[0] for l in case]
    return len(ops) >= 6 and any(o in _REL for o in ops)


# ------------------------------------------------------------------ tie T (table): the counter is atomic, inc/dec are single RMWs

_INC_OK = [r"refCounter\s*\+\+\s*;", r"\+\+\s*refCounter\s*;", r"refCounter\s*\.\s*fetch_add\s*\(\s*1\s*(,[^)]*)?\)\s*;", r"refCounter\s*\+=\s*1\s*;"]
# `<= 0` is accepted next to `== 0`: under the invariant the counter never gets negative, the two are the same function
_DEC_OK = [r"if\s*\(\s*\(?\s*--\s*refCounter\s*\)?\s*(==|<=)\s*0\s*\)\s*delete\s+this\s*;",
           r"if\s*\(\s*\(?\s*refCounter\s*--\s*\)?\s*(==|<=)\s*1\s*\)\s*delete\s+this\s*;",
           r"if\s*\(\s*refCounter\s*\.\s*fetch_sub\s*\(\s*1\s*(,[^)]*)?\)\s*(==|<=)\s*1\s*\)\s*delete\s+this\s*;",
           r"if\s*\(\s*\(\s*refCounter\s*-=\s*1\s*\)\s*(==|<=)\s*0\s*\)\s*delete\s+this\s*;"]


def _body(src, name):
    """text between the braces of `RefCountedObject::<name>() const { ... }` (brace matching, whitespace normalised)"""
    m = re.search(r"RefCountedObject\s*::\s*" + name + r"\s*\(\s*\)\s*const\s*\{", src)
    if not m:
        return None
    i, depth = m.end(), 1
    while i < len(src) and depth:
        depth += {"{": 1, "}": -1}.get(src[i], 0)
        i += 1
    if depth:
        return None
    body = src[m.end():i - 1]
    # a braced single statement `if (..) { delete this; }` is the same thing
    body = re.sub(r"\{\s*(delete\s+this\s*;)\s*\}", r"\1", body)
    return " ".join(body.split())


def _assign_bodies(src):
    """bodies of the out-of-class definitions `IntrusivePtr<T>::operator=(...) { ... }` -> {parameter text: body}"""
    out = {}
    for m in re.finditer(r"IntrusivePtr\s*<\s*T\s*>\s*::\s*operator\s*=\s*\(([^)]*)\)\s*\{", src):
        i, depth = m.end(), 1
        while i < len(src) and depth:
            depth += {"{": 1, "}": -1}.get(src[i], 0)
            i += 1
        if not depth:
            out[" ".join(m.group(1).split())] = " ".join(src[m.end():i - 1].split())
    return out


def _release_last(body):
    """every `->refDec()` of the body comes (textually) after the handle's own pointer was stored or swapped: the old
    object is released when the handle already designates the new one (model: `swapDec` / `moveDec`; theorem never_stale)"""
    st = re.search(r"(?<![\w.>])ptr\s*=(?!=)|std::swap\s*\(\s*ptr\b|swap\s*\(\s*ptr\b", body)
    for d in re.finditer(r"->\s*refDec\s*\(\s*\)", body):
        if st is None or d.start() < st.start():
            return False
    return True


def regenerate(rep):
    """Facts the model takes from the source text (DESIGN 7 C08 'T-table'): returns a failure dict or None."""
    p = os.path.join(core.REPO, "rkcommon", "memory", "IntrusivePtr.h")
    src = re.sub(r"//[^\n]*", "", open(p).read())
    facts = {}
    facts["counter_is_atomic_init_1"] = bool(re.search(
        r"std::atomic\s*<\s*(long long|long|int64_t|std::int64_t|long long int|long int)\s*>\s+refCounter\s*\{\s*1\s*\}\s*;", src))
    # (a 64-bit signed counter: the model counts in unbounded naturals, which 2^63 references cannot exhaust but 2^31 can)
    inc, dec, use = _body(src, "refInc"), _body(src, "refDec"), _body(src, "useCount")
    facts["refInc_single_rmw"] = bool(inc is not None and any(re.fullmatch(r, inc) for r in _INC_OK))
    facts["refDec_single_rmw_delete_at_zero"] = bool(dec is not None and any(re.fullmatch(r, dec) for r in _DEC_OK))
    facts["useCount_is_load"] = bool(use is not None and re.fullmatch(r"return\s+refCounter(\s*\.\s*load\s*\(\s*\))?\s*;", use))
    ab = _assign_bodies(src)
    facts["three_assignment_operators"] = len(ab) == 3
    facts["assignments_release_old_object_last"] = bool(ab) and all(_release_last(b) for b in ab.values())
    rep.coverage["source_facts"] = facts
    bad = [k for k, v in facts.items() if not v]
    if bad:
        return dict(kind="source-fact-mismatch", file="rkcommon/memory/IntrusivePtr.h", failed=bad,
                    bodies=dict(refInc=inc, refDec=dec, useCount=use, assignments=ab),
                    note="the model's atomic steps assume these facts; the proofs no longer apply to this source")
    return None


MANIFEST = dict(
    text=("Lean 4 theorems over an executable atomic-step model of RefCountedObject/IntrusivePtr (every constructor, destructor and "
          "assignment operator as the exact sequence of counter read-modify-writes and pointer stores of the source, objects with member "
          "handles so that releases cascade, any number of threads, objects and handles): for every interleaving of steps, counter = raw "
          "references + owning handles + references in flight; an object is destroyed in exactly the step that takes its counter to 0, never "
          "twice, never while referenced; no step touches the counter of a destroyed object; handle comparison = object identity even with "
          "address reuse; self-assignment and self-move leave the state unchanged.  The model is tied to the code by running the same random "
          "histories (single-threaded, 2-4 real threads, and barrier-synchronised simultaneous first acquisitions of an object at count 1) through the real classes under ASan/UBSan and TSan and through the compiled model, "
          "diffing use counts, destructor counts, handle targets and comparisons after every operation, plus a source-text check that the "
          "counter is a std::atomic initialised to 1, refInc/refDec are single RMWs and all three assignment operators release the old object "
          "after the pointer is stored (never_stale: in every reachable state, also inside a pointee destructor, every handle is null or owns "
          "a count on a live object; the harness lets destructors inspect all live handles)."),
    note=("Trusted: Lean kernel; axioms propext/Classical.choice/Quot.sound; the hand-written model is tied to the code only by the "
          "correspondence harness and the source-text table; sequential consistency of std::atomic; the usage discipline listed in the "
          "assumptions is a hypothesis of the theorems (encoded as step guards) and is respected by the generators; memory safety of the "
          "handle storage itself (as opposed to the counters) is observed by ASan, not proved."),
    technique="Lean 4 proof (inductive invariant over atomic steps, all interleavings) + differential correspondence check model vs real code (ASan/UBSan/TSan)")


def main(tier, seed, replay=None):
    """Generic pipeline, with the shrinker restricted to histories that still respect the usage discipline
    (otherwise ddmin turns a sanitizer report into a crash of the harness on an ill-formed history)."""
    import sys
    from vlib import runner
    orig = core.shrink_case

    def shrink(case, still, fixed_prefix=0, budget=300):
        return orig(case, lambda c: disciplined(c, case) and still(c), fixed_prefix, budget)

    core.shrink_case = shrink
    try:
        return runner.run(sys.modules[__name__], tier, seed, replay)
    finally:
        core.shrink_case = orig
