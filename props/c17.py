"""C17 — index maps (multidim_index_sequence, array3D longIndex/coordsOf/for_each) are bijections and the
Array3D adaptors address the cell their definition names."""
import itertools

from vlib import core

ID = "C17"
MODULE = "RkVerif.Props.C17"
DRIVER = "drv_c17"
THOROUGH_MODULES = ["RkVerif.Model.C17", "RkVerif.Lemmas.C17"]

# header-only code: no /repo .cpp needed
HARNESSES = [dict(name="c17", src="harness/c17.cpp", repo_srcs=[], timeout=300)]

RULE = ("(1) every 3D extent <= 6x6x6 and every 2D extent <= 8x8 including zero extents (thorough: 8x8x8 / 16x16), exhaustively: every "
        "index through reshape/coordsOf, every coordinate through flatten/longIndex, the whole range-for and "
        "for_each(size) visit lists, the iterator protocol (++it, it++, --it, ==, !=, *it, jump_to) from every start; (2) random extents whose products exceed 2^31, 2^32 "
        "and approach 2^63/2^64 (index arithmetic only, corners and random interior points); (3) for_each over all boxes with "
        "per-axis (lower,upper) from a grid that contains empty, single-cell and full regions, negative lowers; (4) histories on "
        "ActualArray3D (own and external memory, non-cubic extents 1..4) with set/clear/get (also outside the extent)/indexOf/raw "
        "cell reads, IndexShifted (all shifts in [-2d-1,2d+1]), SubBox (all clip boxes), Accessor (int->int, uint8, int64), "
        "MultiSlice (1..5 slices), adaptors over adaptors, getValueRange over random and full regions. "
        "A case is non-trivial when it has at least 3 op lines; distinct = distinct op sequences")
ASSUMPTIONS = [
    "size_t is 64 bits and int is 32 bits (LP64), unsigned arithmetic wraps, int->size_t conversion is value mod 2^64 (the model's UInt64/toU)",
    "int components stay in the int range (no signed overflow in where+size+shift, where+lower, loop counters) - the generators keep them small or non-negative",
    "std::vector, std::shared_ptr, operator new[] behave per their specifications; arrays have at least one cell whenever get() is called",
]
EXPLAIN = ("returned indices / coordinates / visit sequences / cell values of the real index maps, iterators, for_each, "
           "ActualArray3D and adaptors differ from the Lean model for which the bijection, no-overflow, exactly-once, "
           "get/set, clamping, adaptor and value-range theorems are proved")


def _case_seq3(d, with_iter=True):
    dx, dy, dz = d
    tot = dx * dy * dz
    D = "%d %d %d" % d
    c = ["tot3 " + D, "lp " + D, "it3 " + D, "itb3 " + D, "fes " + D]
    for i in range(tot):
        c.append("rs3 %s %d" % (D, i))
        c.append("co %d %s" % (i, D))
    for z in range(dz):
        for y in range(dy):
            for x in range(dx):
                c.append("fl3 %s %d %d %d" % (D, x, y, z))
                c.append("li %d %d %d %s" % (x, y, z, D))
    if with_iter:
        for st in range(0, max(0, tot - 2)):
            c.append("itp3 %s %d" % (D, st))
        if dx and dy and dz:
            for st in range(1, tot):      # every start with a predecessor, moved by every n inside the extent
                c.append("itq3 %s %d %d" % (D, st, (st * 7 + 3) % tot))
    return c


def _case_seq2(d):
    dx, dy = d
    tot = dx * dy
    D = "%d %d" % d
    c = ["tot2 " + D, "it2 " + D, "itb2 " + D]
    for i in range(tot):
        c.append("rs2 %s %d" % (D, i))
    for y in range(dy):
        for x in range(dx):
            c.append("fl2 %s %d %d" % (D, x, y))
    for st in range(0, max(0, tot - 2)):
        c.append("itp2 %s %d" % (D, st))
    if dx and dy:
        for st in range(1, tot):
            c.append("itq2 %s %d %d" % (D, st, (st * 5 + 1) % tot))
    return c


def _rand_dims(rng, n, lo_bits, hi_bits, cap):
    """n factors, each < cap, product in [2^lo_bits, 2^hi_bits)."""
    for _ in range(10000):
        ds = []
        for _ in range(n):
            b = rng.randint(1, min(hi_bits, cap.bit_length()))
            ds.append(min(cap - 1, max(1, rng.getrandbits(b))))
        p = 1
        for v in ds:
            p *= v
        if (1 << lo_bits) <= p < (1 << hi_bits):
            return ds
    return [65536, 65536, 2][:n] if n == 3 else [1 << 20, 1 << 13]


def _case_large(rng):
    c = []
    # size_t sequences, 3D and 2D
    lo, hi = rng.pick([(31, 32), (32, 33), (33, 48), (48, 63), (63, 64), (31, 64)])
    d = _rand_dims(rng, 3, lo, hi, 1 << 64)
    rng.shuffle(d)
    tot = d[0] * d[1] * d[2]
    D = "%d %d %d" % tuple(d)
    c.append("tot3 " + D)
    pts = [(0, 0, 0), (d[0] - 1, d[1] - 1, d[2] - 1), (d[0] - 1, 0, 0), (0, d[1] - 1, 0), (0, 0, d[2] - 1)]
    for _ in range(4):
        pts.append((rng.randrange(d[0]), rng.randrange(d[1]), rng.randrange(d[2])))
    for p in pts:
        c.append("fl3 %s %d %d %d" % ((D,) + p))
        c.append("rs3 %s %d" % (D, p[0] + d[0] * (p[1] + d[1] * p[2])))
    for i in [0, tot - 1, tot // 2, rng.randrange(tot), rng.randrange(tot)]:
        c.append("rs3 %s %d" % (D, i))
    if tot > 4:
        c.append("itp3 %s %d" % (D, rng.randrange(tot - 3)))
        c.append("itp3 %s %d" % (D, tot - 3))
        c.append("itq3 %s %d %d" % (D, rng.randrange(1, tot), rng.randrange(tot)))
    d2 = _rand_dims(rng, 2, lo, hi, 1 << 64)
    rng.shuffle(d2)
    tot2 = d2[0] * d2[1]
    D2 = "%d %d" % tuple(d2)
    c.append("tot2 " + D2)
    for p in [(0, 0), (d2[0] - 1, d2[1] - 1), (d2[0] - 1, 0), (0, d2[1] - 1), (rng.randrange(d2[0]), rng.randrange(d2[1]))]:
        c.append("fl2 %s %d %d" % ((D2,) + p))
        c.append("rs2 %s %d" % (D2, p[0] + d2[0] * p[1]))
    for i in [0, tot2 - 1, rng.randrange(tot2)]:
        c.append("rs2 %s %d" % (D2, i))
    if tot2 > 4:
        c.append("itp2 %s %d" % (D2, tot2 - 3))
        c.append("itq2 %s %d %d" % (D2, rng.randrange(1, tot2), rng.randrange(tot2)))
    # int extents (array3D)
    di = _rand_dims(rng, 3, lo, hi, 1 << 31)
    rng.shuffle(di)
    toti = di[0] * di[1] * di[2]
    DI = "%d %d %d" % tuple(di)
    c.append("lp " + DI)
    pts = [(0, 0, 0), (di[0] - 1, di[1] - 1, di[2] - 1), (di[0] - 1, 0, 0), (0, di[1] - 1, 0), (0, 0, di[2] - 1)]
    for _ in range(4):
        pts.append((rng.randrange(di[0]), rng.randrange(di[1]), rng.randrange(di[2])))
    for p in pts:
        c.append("li %d %d %d %s" % (p + (DI,)))
        c.append("bigidx %s %d %d %d" % ((DI,) + p))
        c.append("co %d %s" % (p[0] + di[0] * (p[1] + di[1] * p[2]), DI))
    for i in [0, toti - 1, rng.randrange(toti), rng.randrange(toti)]:
        c.append("co %d %s" % (i, DI))
    return c


_AXIS = [(lo, lo + w) for lo in (-2, 0, 1) for w in (-1, 0, 1, 3)]


def _cases_regions(rng, tier):
    combos = list(itertools.product(_AXIS, _AXIS, _AXIS))
    if tier == "quick":
        combos = [combos[i] for i in sorted(rng.sample(range(len(combos)), 300))]
    cases, cur = [], []
    for (ax, ay, az) in combos:
        a = "%d %d %d %d %d %d" % (ax[0], ay[0], az[0], ax[1], ay[1], az[1])
        cur.append("fe " + a)
        cur.append("feb " + a)
        if len(cur) >= 24:
            cases.append(cur)
            cur = []
    if cur:
        cases.append(cur)
    return cases


def _rdims(rng):
    while True:
        d = (rng.randint(1, 4), rng.randint(1, 4), rng.randint(1, 4))
        if rng.chance(0.8) and len(set(d)) < 3:
            continue  # prefer pairwise different extents: transpositions become visible
        return d


def _coord(rng, d, margin):
    return tuple(rng.randint(-margin, d[i] - 1 + margin) for i in range(3))


def _case_history(rng):
    c = []
    sizes = []   # size() of each pool entry (tracked by the generator to aim coordinates)
    actual = []  # ids of ActualArray3D entries
    def add(line, size, is_actual=False):
        c.append(line)
        sizes.append(size)
        if is_actual:
            actual.append(len(sizes) - 1)
    for _ in range(rng.randint(1, 2)):
        d = _rdims(rng)
        add(("new" if rng.chance(0.5) else "ext") + " %d %d %d" % d, d, True)
    for _ in range(rng.randint(8, 40)):
        r = rng.random()
        k = rng.randrange(len(sizes))
        d = sizes[k]
        ka = rng.pick(actual)
        da = sizes[ka]
        if r < 0.20:
            p = _coord(rng, da, 0)
            c.append("set %d %d %d %d %d" % ((ka,) + p + (rng.randint(-60, 60),)))
        elif r < 0.23:
            c.append("clear %d %d" % (ka, rng.randint(-60, 60)))
        elif r < 0.40:
            c.append("get %d %d %d %d" % ((k,) + _coord(rng, d, 2)))
        elif r < 0.45:
            c.append("idx %d %d %d %d" % ((ka,) + _coord(rng, da, 0)))
        elif r < 0.50:
            c.append("raw %d %d" % (ka, rng.randrange(da[0] * da[1] * da[2])))
        elif r < 0.52:
            c.append("num %d" % ka)
        elif r < 0.55:
            c.append("size %d" % k)
        elif r < 0.62 and len(sizes) < 9:
            s = tuple(rng.randint(-2 * d[i] - 1, 2 * d[i] + 1) for i in range(3))
            add("shift %d %d %d %d" % ((k,) + s), d)
        elif r < 0.69 and len(sizes) < 9:
            lo = tuple(rng.randint(0, d[i]) for i in range(3))
            up = tuple(rng.randint(lo[i], d[i]) for i in range(3))
            if rng.chance(0.15):
                lo = tuple(v - 1 for v in lo)
            sz = tuple(up[i] - lo[i] for i in range(3))
            if min(sz) >= 1:
                add("sub %d %d %d %d %d %d %d" % ((k,) + lo + up), sz)
        elif r < 0.72 and len(sizes) < 9:
            add("acc %d" % k, d)
        elif r < 0.78 and len(sizes) < 9:
            n = rng.randint(1, 5)
            ks = [rng.randrange(len(sizes)) for _ in range(n)]
            add("ms " + " ".join(map(str, ks)), (sizes[ks[0]][0], sizes[ks[0]][1], n))
        elif r < 0.82:
            c.append("get8 %d %d %d %d" % ((k,) + _coord(rng, d, 1)))
        elif r < 0.84:
            c.append("get64 %d %d %d %d" % ((k,) + _coord(rng, d, 1)))
        elif r < 0.92:
            b = _coord(rng, d, 1)
            m = rng.random()
            if m < 0.2:    # empty region (at least one axis with end <= begin)
                ax = rng.randrange(3)
                e = [b[i] + rng.randint(0, 2) for i in range(3)]
                e[ax] = b[ax] - rng.randint(0, 1)
                e = tuple(e)
            elif m < 0.45:  # single cell
                e = tuple(v + 1 for v in b)
            else:
                e = tuple(rng.randint(b[i] + 1, max(b[i] + 1, d[i] + 1)) for i in range(3))
            c.append("vr %d %d %d %d %d %d %d" % ((k,) + b + e))
        elif r < 0.95:
            c.append("vra %d" % k)
        else:
            c.append("dump %d %d %d %d %d %d %d" % ((k, -1, -1, -1) + tuple(v + 1 for v in d)))
    for k, d in enumerate(sizes):
        c.append("dump %d %d %d %d %d %d %d" % ((k, -1, -1, -1) + tuple(v + 1 for v in d)))
        c.append("vra %d" % k)
    return c


def _cases_adaptors_exhaustive(rng, tier):
    """all shifts / all clip boxes / all slice counts over one non-cubic array per case."""
    cases = []
    dims = [(2, 3, 1), (3, 1, 2), (1, 2, 3)] if tier == "quick" else [(2, 3, 1), (3, 1, 2), (1, 2, 3), (2, 3, 2), (3, 2, 4), (4, 3, 2)]
    for d in dims:
        full = "-1 -1 -1 %d %d %d" % tuple(v + 1 for v in d)
        # shifts
        shifts = list(itertools.product(*[range(-2 * v - 1, 2 * v + 2) for v in d]))
        if tier == "quick" and len(shifts) > 150:
            shifts = [shifts[i] for i in sorted(rng.sample(range(len(shifts)), 150))]
        for chunk in range(0, len(shifts), 8):
            c = ["new %d %d %d" % d, "set 0 %d %d %d 77" % tuple(v - 1 for v in d)]
            for j, s in enumerate(shifts[chunk:chunk + 8]):
                c.append("shift 0 %d %d %d" % s)
                c.append("dump %d %s" % (j + 1, full))
                c.append("vra %d" % (j + 1))
            cases.append(c)
        # clip boxes
        boxes = []
        for los in itertools.product(*[range(0, v + 1) for v in d]):
            for ups in itertools.product(*[range(los[i], d[i] + 1) for i in range(3)]):
                boxes.append((los, ups))
        if tier == "quick" and len(boxes) > 150:
            boxes = [boxes[i] for i in sorted(rng.sample(range(len(boxes)), 150))]
        for chunk in range(0, len(boxes), 8):
            c = ["ext %d %d %d" % d]
            for j, (lo, up) in enumerate(boxes[chunk:chunk + 8]):
                sz = tuple(up[i] - lo[i] for i in range(3))
                c.append("sub 0 %d %d %d %d %d %d" % (lo + up))
                c.append("size %d" % (j + 1))
                c.append("dump %d -1 -1 -1 %d %d %d" % ((j + 1,) + tuple(v + 1 for v in sz)))
                c.append("vra %d" % (j + 1))
            cases.append(c)
        # slice counts
        for n in range(1, 6):
            c = []
            for i in range(n):
                c.append("new %d %d 1" % (d[0], d[1]))
                c.append("clear %d %d" % (i, 10 * (i + 1)))
                c.append("set %d %d %d 0 %d" % (i, d[0] - 1, 0, i + 1))
            c.append("ms " + " ".join(str(i) for i in range(n)))
            c.append("size %d" % n)
            c.append("dump %d -1 -1 -2 %d %d %d" % (n, d[0] + 1, d[1] + 1, n + 2))
            c.append("vra %d" % n)
            for z in range(-1, n + 1):
                c.append("get %d %d %d %d" % (n, d[0] - 1, 0, z))
                c.append("get8 %d %d %d %d" % (n, d[0] - 1, 0, z))
            cases.append(c)
    return cases


def _cases_empty_arrays():
    cases = []
    for d in [(0, 2, 3), (2, 0, 3), (2, 3, 0), (0, 0, 0)]:
        cases.append(["new %d %d %d" % d, "num 0", "size 0", "clear 0 5", "vra 0", "fes %d %d %d" % d])
    return cases


def gen_cases(rng, tier, h):
    cases = []
    # exhaustive part (both tiers): every 3D extent <= 6^3 (thorough: <= 8^3) and every 2D extent <= 8^2 (thorough: <= 16^2)
    m3, m2 = (6, 8) if tier == "quick" else (8, 16)
    for d in itertools.product(range(0, m3 + 1), repeat=3):
        cases.append(_case_seq3(d, with_iter=max(d) <= 6))
    for d in itertools.product(range(0, m2 + 1), repeat=2):
        cases.append(_case_seq2(d))
    for _ in range(300 if tier == "quick" else 20000):
        cases.append(_case_large(rng))
    cases.extend(_cases_regions(rng, tier))
    cases.extend(_cases_empty_arrays())
    cases.extend(_cases_adaptors_exhaustive(rng, tier))
    for _ in range(600 if tier == "quick" else 40000):
        cases.append(_case_history(rng))
    return cases


def _case_bigmem(rng):
    """get/set on arrays with more than 2^31 / 2^32 two-byte cells (cells live in a NORESERVE mapping)."""
    c = []
    while len(c) < 16:
        lo, hi = rng.pick([(31, 32), (32, 33), (33, 35)])
        d = _rand_dims(rng, 3, lo, hi, 1 << 31)
        rng.shuffle(d)
        if d[0] * d[1] * d[2] > (1 << 35):
            continue
        for _ in range(4):
            m = rng.random()
            if m < 0.35:      # a cell on the boundary, read back through a location outside that clamps onto it
                p = tuple(rng.pick([0, d[i] - 1]) for i in range(3))
                w = tuple((-rng.randint(0, 3)) if p[i] == 0 and rng.chance(0.7) else
                          min((1 << 31) - 1, d[i] - 1 + rng.randint(0, 3)) if p[i] == d[i] - 1 else p[i] for i in range(3))
            elif m < 0.7:     # random cell, read back at the same location
                p = tuple(rng.randrange(d[i]) for i in range(3))
                w = p
            else:             # random cell, read another random location (mostly a different cell)
                p = tuple(rng.randrange(d[i]) for i in range(3))
                w = tuple(rng.randrange(d[i]) if rng.chance(0.5) else p[i] for i in range(3))
            idx = p[0] + d[0] * (p[1] + d[1] * p[2])
            c.append("bigrw %d %d %d %d %d %d %d %d %d %d %d" % (tuple(d) + p + (rng.randint(1, 100), idx) + w))
    return c


_BIG_SEEDS = [
    "bigrw 65536 65536 2 65535 65535 1 7 8589934591 65535 65535 1",
    "bigrw 65536 65536 2 65535 65535 1 7 8589934591 70000 70000 5",
    "bigrw 65536 65536 2 0 32768 0 9 2147483648 0 32768 0",
    "bigrw 2147483647 4 4 2147483646 3 3 5 34359738351 2147483647 4 4",
    "bigrw 4 2147483647 4 3 2147483646 3 5 34359738351 3 2147483646 3",
    "bigrw 46341 46341 1 46340 46340 0 3 2147488280 46340 46340 0",
]


def extra_stage(rep, ctx):
    """get()/set() of arrays beyond 2^31 and 2^32 cells, run for real on a NORESERVE mapping.
    Skipped (with a note, never a violation) when the address space cannot be mapped."""
    h = HARNESSES[0]
    hb, _ = core.build_harness(h["name"], h["src"], h.get("repo_srcs", ()), h.get("flags", ()), h.get("san", core.SAN),
                               h.get("std", "c++11"), h.get("libs", ()), h.get("opt", "-O1"))
    if hb is None:
        return None  # already reported by the main stage
    pair = core.Pair(hb, core.driver_path(DRIVER), timeout=300)
    rng, tier = ctx["rng"], ctx["tier"]
    cases = [list(_BIG_SEEDS)] + [_case_bigmem(rng) for _ in range(40 if tier == "quick" else 600)]
    rc, io, err = pair.run_impl(cases[:1])
    if any(l.strip() == "nomem" for l in io.get(0, [])):
        rep.notes.append("bigmem stage skipped: mmap(MAP_NORESERVE, 64 GiB) failed on this machine")
        return dict(evaluations=0)
    fails = pair.compare(cases)
    found = False
    for f in fails[:2]:
        case = cases[f["case"]]
        kind = f["kind"]
        small = core.shrink_case(case, lambda c2: bool(pair.fails_one(c2)) and pair.fails_one(c2)[0]["kind"] == kind, wall=60)
        ff = pair.fails_one(small)
        f2 = ff[0] if ff else f
        found = True
        rep.violation(dict(kind="correspondence-" + f2["kind"], harness=h["name"] + "/bigmem", ops=small, impl=f2.get("impl"),
                           model=f2.get("model"), detail=f2.get("detail"), stderr=f2.get("stderr", "")[-2500:],
                           explanation=EXPLAIN))
    core.log("[%s] bigmem stage: %d cases, %d failures" % (ID, len(cases), len(fails)))
    return dict(evaluations=len(cases), distinct=[core.case_hash(c) for c in cases],
                samples=[dict(harness="c17/bigmem", ops=cases[0], impl=io.get(0, []))], found_input=found)


def nontrivial(case):
    return len(case) >= 3


MANIFEST = dict(
    text=("Lean 4 theorems over an executable machine-level model (size_t = UInt64 with wrap-around, int->size_t and size_t->int "
          "conversions explicit) of multidim_index_sequence, array3D::longProduct/longIndex/coordsOf/for_each, ActualArray3D and the "
          "IndexShifted/Accessor/SubBox/MultiSlice adaptors: flatten/reshape (2D, 3D) and longIndex/coordsOf are mutually inverse "
          "bijections extent <-> [0,total) for every extent whose total fits 64 bits, the 64-bit machine results equal the "
          "unbounded mathematical values (no intermediate overflows), the range-for over a sequence and for_each over any box visit "
          "exactly the coordinates of the region, once each, in increasing flattened order; get returns the value most recently "
          "written by set/clear after every history and clamps outside locations to the nearest cell; each adaptor returns the "
          "underlying cell its definition names (also adaptors over adaptors); getValueRange bounds every value of a non-empty "
          "region and both bounds are attained. The model is tied to the code by running the same op lines through the real "
          "headers under ASan/UBSan and through the compiled model and diffing every integer observation: all extents <= 6^3 / 8^2 "
          "exhaustively, random extents with products beyond 2^31, 2^32 and up to 2^64, get/set on arrays of up to 2^35 cells "
          "(NORESERVE mapping), all boxes/shifts/clip boxes/slice counts on small arrays, random histories."),
    note=("Trusted: Lean kernel; axioms propext/Classical.choice/Quot.sound; the hand-written model is tied to the code only by the "
          "correspondence harness (generators, canonicalisation) and the g++/ASan/UBSan runtimes; LP64 (size_t 64 bit, int 32 bit); "
          "int components are assumed not to overflow (where+size+shift, where+lower, loop counters); arrays have at least one cell "
          "when get() is called; the value range of an empty region and Array3DRepeater are not covered by the property and not "
          "observed; the shifted adaptor's cyclic-cell theorem needs where+size+shift >= 0 (C++ % truncates otherwise; the model "
          "follows the code there and the tie covers it)."),
    technique="Lean 4 proof (Nat/UInt64 arithmetic, induction over loops and operation histories) + differential correspondence check model vs real code")
