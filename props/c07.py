"""C07 — scalar math kernels meet accuracy and range contracts for every float (claimed PARTIAL).

Proof: lean/RkVerif/Props/C07.lean about the hand-written model lean/RkVerif/Model/C07.lean (polymorphic over the scalar).
Tie C: the same op lines through the real kernels (harness/c07.cpp, ASan/UBSan, BOTH preprocessor configurations: SSE
estimate + Newton-Raphson and -DRKCOMMON_NO_SIMD) and through the model compiled at Float32, compared bit for bit. The hardware
estimate is an input of the model: the generator asks the harness for this machine's _mm_rcp_ss/_mm_rsqrt_ss in a pre-pass and
puts it on the op line. Sweep (harness/c07_sweep.cpp, -O2, 16 threads): every float bit pattern through the real
rcp/rsqrt/rcp_safe/linear_to_srgb/cvt_uint32 and through the raw estimate instructions — this is the validation of the two
contracts the theorems assume (estimate error <= 1.5*2^-12, powf monotone) and is only ever reported as "observed".
Oracle: the property itself evaluated on what the real code returned (independent Python references).
"""
import math
import struct

from vlib import core

ID = "C07"
MODULE = "RkVerif.Props.C07"
DRIVER = "drv_c07"
THOROUGH_MODULES = ["RkVerif.Model.C07", "RkVerif.Lemmas.C07"]

_COMMON = ["-ffp-contract=off"]
HARNESSES = [
    dict(name="c07simd", src="harness/c07.cpp", flags=_COMMON, extra_deps=["harness/drv_common.h"],
         driver_args=["simd"], mode="simd"),
    dict(name="c07nosimd", src="harness/c07.cpp", flags=_COMMON + ["-DRKCOMMON_NO_SIMD"], extra_deps=["harness/drv_common.h"],
         driver_args=["nosimd"], mode="nosimd"),
]
SWEEPS = [
    dict(name="c07sweepsimd", flags=_COMMON, mode="simd"),
    dict(name="c07sweepnosimd", flags=_COMMON + ["-DRKCOMMON_NO_SIMD"], mode="nosimd"),
]
QUICK_STRIDE = 3          # odd, so every low-mantissa pattern is visited; plus +-64 patterns around ~1000 boundary values
RULE = ("(a) sweep: every float bit pattern (thorough: all 2^32; quick: every 3rd plus +-64 patterns around every power of two, "
        "mantissa extreme, 0, denormal limits, flt_min, 1, 2^126, flt_max, inf, both signs) through the real rcp, rsqrt, rcp_safe, "
        "linear_to_srgb∘cvt_uint32, cvt_uint32 and the raw rcpss/rsqrtss estimates, in the SIMD and the NO_SIMD build; "
        "(b) op lines, both builds, compared bit for bit with the Lean model at Float32: unary kernels on a boundary-heavy pool "
        "(zeros, denormals, flt_min, powers of two, mantissa extremes, 2^126, flt_max) plus random bit patterns; clamp/lerp/madd on "
        "pairs/triples from the pool and random values; divRoundUp on a grid of small values, exact multiples, and values next to "
        "2^31 / 2^63 that do not overflow; cvt_uint32 / packing on k/255, (k+-1/2)/255 and their float neighbours, values around 0 "
        "and 1; pcg32 streams and both distributions for random and extreme (seed, sequence) and ranges that are equal, adjacent "
        "floats, denormal, tiny, huge (finite width); uniform_real_distribution also with a generator whose min()/max()/value "
        "are prescribed; distinct = distinct op lines")
ASSUMPTIONS = [
    "the rcpss/rsqrtss estimate has relative error <= 1.5*2^-12 on normal inputs (hypothesis of rcp_nr_error/rsqrt_nr_error; "
    "validated for all 2^32 patterns on this machine by the sweep — observed, not proved)",
    "IEEE-754 single precision without under/overflow follows the standard model fl(a op b) = (a op b)(1+d), |d| <= 2^-24 "
    "(hypothesis of the error theorems; the end-to-end 2^-20 bound is validated exhaustively by the sweep)",
    "libm powf is monotone in its first argument on [0,inf) with pow(0,p)=0, pow(1,p)=1 and round/float->uint32 conversion is "
    "monotone with round(0)=0, round(255)=255 (hypotheses of srgb_monotone/srgb_saturating; validated along the whole sorted "
    "float line by the sweep — observed, not proved)",
    "range theorems of the distributions are in exact arithmetic plus a rounding-model corollary; ranges whose width upper-lower "
    "overflows float are outside the statement (input restriction) and not generated",
    "the hand-written model is tied to the code by the bit-exact correspondence check in both preprocessor configurations",
]
EXPLAIN = ("the real kernel and the Lean model (for which the C07 theorems are proved) disagree bit for bit on this input; "
           "either the code no longer computes the modelled formula or the model is out of date")

FIXED_PREFIX = 0
KF_DENORMAL_SCALE = "C07-uniform-real-denormal-scale"

# --------------------------------------------------------------------------- float helpers


def f2h(x):
    return "%08x" % struct.unpack("<I", struct.pack("<f", x))[0]


def b2f(u):
    return struct.unpack("<f", struct.pack("<I", u & 0xFFFFFFFF))[0]


def h2f(s):
    if s == "nan":
        return float("nan")
    return b2f(int(s, 16))


def f2b(x):
    return struct.unpack("<I", struct.pack("<f", x))[0]


INF = float("inf")


def r32(x):
    if x != x:
        return x
    try:
        return struct.unpack("<f", struct.pack("<f", x))[0]
    except OverflowError:
        return INF if x > 0 else -INF


FLT_MIN_B = 0x00800000
TWO126_B = 0x7E800000
# positive bit patterns that matter for the unary kernels
POOL_POS = ([0x00000000, 0x00000001, 0x00000002, 0x00400000, 0x007FFFFF, 0x00800000, 0x00800001, 0x00FFFFFF, 0x01000000,
             0x3F800000, 0x3F7FFFFF, 0x3F800001, 0x3F000000, 0x40000000, 0x40400000, 0x3FC00000, 0x3FB504F3, 0x3FB504F4,
             0x437F0000, 0x43800000, 0x3B808081, 0x7E7FFFFF, 0x7E800000, 0x7E800001, 0x7F000000, 0x7F7FFFFF,
             0x5F800000, 0x1F800000, 0x3EAAAAAB, 0x4B800000, 0x4F800000, 0x2F800000]
            + [e << 23 for e in range(1, 254, 9)] + [(e << 23) | 0x7FFFFF for e in range(1, 253, 11)])


def in_range_bits(u):
    e = (u >> 23) & 0xFF
    return 1 <= e <= 252     # 2^-126 <= |x| < 2^126


def rand_bits(rng, kind):
    """kind: 'range' (2^-126<=|x|<2^126), 'finite', 'pos_range'"""
    r = rng.random()
    if r < 0.35:
        u = rng.pick(POOL_POS)
        if kind != "pos_range" and rng.chance(0.5):
            u |= 0x80000000
    elif r < 0.6:
        # moderate magnitudes
        u = f2b(rng.uniform(-8, 8) if rng.chance(0.5) else rng.uniform(-1e3, 1e3))
        if rng.chance(0.3):
            u = f2b(round(rng.uniform(-16, 16)) / 4.0)
    else:
        u = rng.getrandbits(32)
    if kind == "pos_range":
        u &= 0x7FFFFFFF
    if kind in ("range", "pos_range"):
        if not in_range_bits(u):
            e = rng.randrange(1, 253)
            u = (u & 0x807FFFFF) | (e << 23)
    elif kind == "finite":
        if ((u >> 23) & 0xFF) == 0xFF:
            u = (u & 0x807FFFFF) | (rng.randrange(0, 255) << 23)
    return u


def rand_val(rng):
    """a float for the binary/ternary kernels: grid value, pool value or random (finite, moderate or extreme)."""
    r = rng.random()
    if r < 0.4:
        return rng.pick([0.0, -0.0, 1.0, -1.0, 0.5, 2.0, 0.25, 0.75, -0.5, 3.0, 255.0, 1e-3, 180.0, 90.0, 360.0, 1.5, -2.0])
    if r < 0.55:
        u = rng.pick(POOL_POS)
        return b2f(u | (0x80000000 if rng.chance(0.4) else 0))
    if r < 0.85:
        return r32(rng.uniform(-4, 4))
    u = rng.getrandbits(32)
    if ((u >> 23) & 0xFF) == 0xFF:
        u &= 0xBFFFFFFF
    return b2f(u)


# --------------------------------------------------------------------------- estimates (pre-pass through the harness)

_est_cache = {}


def _harness_bin(h):
    hb, out = core.build_harness(h["name"], h["src"], h.get("repo_srcs", ()), h.get("flags", ()), h.get("san", core.SAN),
                                 h.get("std", "c++11"), h.get("libs", ()), h.get("opt", "-O1"), h.get("extra_deps", ()))
    return hb


def estimates(h, bits):
    """{bits: (rcp_est_tok, rsqrt_est_tok)} from this machine's hardware through the harness binary (SIMD build);
    zeros in the NO_SIMD build (the estimate is not used there)."""
    if h["mode"] != "simd":
        return {u: ("00000000", "00000000") for u in bits}
    need = sorted(set(u for u in bits if u not in _est_cache))
    if need:
        hb = _harness_bin(h)
        if hb is None:
            raise RuntimeError("harness build failed")
        rc, out, err = core.run_prog(hb, core.cases_to_text([["est %08x" % u for u in need]]), timeout=120)
        lines = core.split_output(out).get(0, [])
        if rc != 0 or len(lines) != len(need):
            raise RuntimeError("estimate pre-pass failed rc=%s %s" % (rc, err[-500:]))
        for u, l in zip(need, lines):
            a, b = l.split()
            _est_cache[u] = (a, b)
    return {u: _est_cache[u] for u in bits}


# --------------------------------------------------------------------------- generators

def _unary_lines(rng, h, n):
    """rcp / rsqrt / rcp_safe lines (need estimates)."""
    todo = []
    for _ in range(n):
        k = rng.random()
        if k < 0.35:
            todo.append(("rcp", rand_bits(rng, "range")))
        elif k < 0.65:
            todo.append(("rsqrt", rand_bits(rng, "pos_range")))
        else:
            todo.append(("rcp_safe", rand_bits(rng, "finite")))
    return todo


HAND_UNARY = ([("rcp", u) for u in (0x00800000, 0x80800000, 0x3F800000, 0xBF800000, 0x7E7FFFFF, 0xFE7FFFFF, 0x40400000, 0x3EAAAAAB)]
              + [("rsqrt", u) for u in (0x00800000, 0x3F800000, 0x40000000, 0x40800000, 0x7E7FFFFF, 0x3FB504F3)]
              + [("rcp_safe", u) for u in (0x00000000, 0x80000000, 0x00000001, 0x80000001, 0x007FFFFF, 0x807FFFFF, 0x00800000,
                                           0x80800000, 0x7F7FFFFF, 0xFF7FFFFF, 0x7E800000, 0xFE800000, 0x3F800000, 0xBF800000)])


def _render_unary(h, todo):
    need = set(u for _, u in todo) | {FLT_MIN_B, FLT_MIN_B | 0x80000000}
    est = estimates(h, need)
    out = []
    for op, u in todo:
        if op == "rcp":
            out.append("rcp %08x %s" % (u, est[u][0]))
        elif op == "rsqrt":
            out.append("rsqrt %08x %s" % (u, est[u][1]))
        else:
            out.append("rcp_safe %08x %s %s %s" % (u, est[u][0], est[FLT_MIN_B][0], est[FLT_MIN_B | 0x80000000][0]))
    return out


def _sorted3(rng):
    a, b = rand_val(rng), rand_val(rng)
    while a != a or b != b:
        a, b = rand_val(rng), rand_val(rng)
    lo, hi = (a, b) if a <= b else (b, a)
    return lo, hi


def _clamp_line(rng):
    lo, hi = _sorted3(rng)
    r = rng.random()
    if r < 0.25:
        x = rng.pick([lo, hi])
    elif r < 0.45 and lo < hi:
        x = r32(lo + (hi - lo) * rng.random()) if math.isfinite(hi - lo) else lo
    elif r < 0.6:
        # float neighbours of the bounds
        b = f2b(rng.pick([lo, hi]))
        x = b2f(b + rng.pick([-1, 1])) if 0 < (b & 0x7FFFFFFF) < 0x7F7FFFFF else lo
    else:
        x = rand_val(rng)
    if x != x:
        x = lo
    if rng.chance(0.15):
        return "clamp01 " + f2h(x)
    return "clamp %s %s %s" % (f2h(x), f2h(lo), f2h(hi))


def _divru_line(rng):
    r = rng.random()
    if rng.chance(0.25):
        # 8- and 16-bit element types (scalars here; vec3uc / vec3us go through the same template): values up to the
        # type's maximum, where a + b - 1 only fits because it is computed in int
        op, top = rng.pick([("divru8", 255), ("divru16", 65535), ("divrus8", 127), ("divrus16", 32767)])
        b = rng.pick([1, 2, 3, 7, 8, top // 2, top]) if rng.chance(0.7) else rng.randrange(1, top + 1)
        a = rng.pick([top, top - 1, top - b + 1 if top - b + 1 >= 0 else 0, 0, 1]) if rng.chance(0.6) else rng.randrange(0, top + 1)
        return "%s %d %d" % (op, a, b)
    if rng.chance(0.7):
        lim = 2 ** 31
        op = "divru32"
    else:
        lim = 2 ** 63
        op = "divru64"
    if r < 0.5:
        a, b = rng.randrange(0, 40), rng.randrange(1, 9)
    elif r < 0.7:
        b = rng.randrange(1, 1000)
        a = b * rng.randrange(0, 1000) + rng.pick([0, 0, 1, b - 1])
    elif r < 0.85:
        b = rng.pick([1, 2, 3, 16, 64, 1000, lim // 2, lim - 1])
        a = rng.randrange(0, lim)
    else:
        a, b = rng.randrange(0, lim), rng.randrange(1, lim)
    # the property's domain: a >= 0, b > 0 and no signed overflow in a + b - 1
    if a + b - 1 >= lim:
        a = lim - b
    if a + b >= lim:        # a + b itself is evaluated first
        a = lim - 1 - b
    if a < 0:
        a = 0
    return "%s %d %d" % (op, a, b)


def _cvt_val(rng):
    r = rng.random()
    if r < 0.35:
        k = rng.randrange(0, 256)
        v = r32((k + rng.pick([0, 0.5, -0.5, 0.499, 0.501])) / 255.0)
        if rng.chance(0.4):
            v = b2f(max(0, f2b(abs(v)) + rng.pick([-1, 1]))) * (1 if v >= 0 else -1)
        return v
    if r < 0.55:
        return rng.pick([0.0, -0.0, 1.0, b2f(0x3F7FFFFF), b2f(0x3F800001), b2f(1), -b2f(1), 2.0, -1.0, 1e30, -1e30, INF, -INF,
                         0.5, b2f(0x3B008081), b2f(0x3B008080), b2f(0x3B008082), 0.0031308])
    if r < 0.85:
        return r32(rng.uniform(-0.2, 1.2))
    v = rand_val(rng)
    return 0.0 if v != v else v


def _range(rng):
    """(lower, upper) with lower <= upper and finite width"""
    r = rng.random()
    if r < 0.15:
        return 0.0, 1.0
    if r < 0.25:
        v = rand_val(rng)
        v = 0.5 if v != v or abs(v) == INF else v
        return v, v
    if r < 0.4:
        v = rand_val(rng)
        v = 0.5 if v != v or abs(v) >= 3e38 else v
        b = f2b(v)
        w = b2f(b + 1) if not (b & 0x80000000) else b2f(b - 1) if (b & 0x7FFFFFFF) else b2f(1)
        return (v, w) if v <= w else (w, v)
    if r < 0.5:
        return rng.pick([(-1e38, 1e38), (-1.5e38, 1.5e38), (0.0, 3e38), (-3e38, 0.0), (1e38, 3e38), (-b2f(1), b2f(1)),
                         (0.0, b2f(0x007FFFFF)), (b2f(0x00800000), b2f(0x00800005)), (-1e10, 600.0), (-1.0, 1e-30),
                         (16777216.0, 16777218.0), (-1e-30, 1.0),
                         # widths in [2^-118, 2^-94): (u-l)/2^32 is a denormal float (known finding for uniform_real)
                         (0.0, b2f(0x05400000)), (0.0, 1.25 * 2.0 ** -100), (-(2.0 ** -110), 1.75 * 2.0 ** -110),
                         (2.0 ** -100, 1.3125 * 2.0 ** -100)])
    if r < 0.8:
        a, b = r32(rng.uniform(-100, 100)), r32(rng.uniform(-100, 100))
    else:
        a, b = rand_val(rng), rand_val(rng)
    bad = lambda v: v != v or abs(v) == INF
    if bad(a) or bad(b):
        a, b = -2.0, 5.0
    lo, hi = (a, b) if a <= b else (b, a)
    if not math.isfinite(r32(hi - lo)):
        lo, hi = r32(lo / 4), r32(hi / 4)
    return r32(lo), r32(hi)


def _seedseq(rng):
    r = rng.random()
    if r < 0.3:
        return rng.randrange(0, 5), rng.randrange(0, 5)
    if r < 0.5:
        return rng.pick([0, -1, 2 ** 31 - 1, -2 ** 31, 1, 42]), rng.pick([0, -1, 2 ** 31 - 1, -2 ** 31, 1, 54])
    return rng.randrange(-2 ** 31, 2 ** 31), rng.randrange(-2 ** 31, 2 ** 31)


def _misc_line(rng):
    r = rng.random()
    fv = lambda: f2h(rand_val(rng))
    if r < 0.07:
        return "sign " + fv()
    if r < 0.21:
        return _clamp_line(rng)
    if r < 0.27:
        return "deg2rad " + fv()
    if r < 0.35:
        return "madd %s %s %s" % (fv(), fv(), fv())
    if r < 0.44:
        t = rng.pick([0.0, 1.0, 0.5, 0.25, r32(rng.random()), rand_val(rng)])
        return "lerp %s %s %s" % (f2h(t), fv(), fv())
    if r < 0.56:
        return _divru_line(rng)
    if r < 0.62:
        return "cvt " + f2h(_cvt_val(rng))
    if r < 0.67:
        return "srgb " + f2h(_cvt_val(rng))
    if r < 0.72:
        return "cvt4 " + " ".join(f2h(_cvt_val(rng)) for _ in range(4))
    if r < 0.75:
        return "srgba " + " ".join(f2h(_cvt_val(rng)) for _ in range(4))
    if r < 0.81:
        return "srgba8 " + " ".join(f2h(_cvt_val(rng)) for _ in range(4))
    if r < 0.84:
        s, q = _seedseq(rng)
        return "pcg %d %d %d" % (s, q, rng.randrange(1, 9))
    if r < 0.89:
        s, q = _seedseq(rng)
        lo, hi = _range(rng)
        return "biased %d %d %s %s %d" % (s, q, f2h(lo), f2h(hi), rng.randrange(1, 9))
    if r < 0.93:
        s, q = _seedseq(rng)
        lo, hi = _range(rng)
        return "urdp %d %d %s %s %d" % (s, q, f2h(lo), f2h(hi), rng.randrange(1, 9))
    if r < 0.97:
        lo, hi = _range(rng)
        gmin, gmax = rng.pick([(0, 2 ** 32 - 1), (1, 2147483646), (0, 1), (5, 9), (0, 2 ** 24), (0, 2 ** 24 + 1), (100, 2 ** 31)])
        g = rng.pick([gmin, gmax, rng.randrange(gmin, gmax + 1), rng.randrange(gmin, gmax + 1)])
        if rng.chance(0.4):
            # the same distribution object with a second generator of another range
            gmin2, gmax2 = rng.pick([(0, 2 ** 32 - 1), (1, 2147483646), (0, 1), (5, 9), (0, 2 ** 24)])
            g2 = rng.pick([gmin2, gmax2, rng.randrange(gmin2, gmax2 + 1)])
            return "urd2 %s %s %d %d %d %d %d %d" % (f2h(lo), f2h(hi), gmin, gmax, g, gmin2, gmax2, g2)
        return "urd %s %s %d %d %d" % (f2h(lo), f2h(hi), gmin, gmax, g)
    return "color %d" % rng.pick([0, 1, 2, 3, 2 ** 32 - 1, 2254525, 2254526, rng.randrange(0, 2 ** 32), rng.randrange(0, 100000)])


HAND_MISC = [
    "sign 80000000", "sign 00000000", "sign 7fc00000", "sign bf800000", "sign 80000001",
    "clamp 3f000000 00000000 3f800000", "clamp bf800000 00000000 3f800000", "clamp 40000000 00000000 3f800000",
    "clamp 80000000 00000000 3f800000", "clamp01 3f800001", "clamp 3f800000 3f800000 3f800000",
    "lerp 00000000 40400000 40a00000", "lerp 3f800000 40400000 40a00000", "lerp 3f000000 40400000 40a00000",
    "deg2rad 43340000", "madd 40000000 40400000 3f800000",
    "divru32 0 1", "divru32 10 3", "divru32 9 3", "divru32 1 2147483646", "divru32 2147483646 1",
    "divru64 9223372036854775806 1", "divru64 7 8", "divru8 255 2", "divru16 65535 8", "divrus8 127 2", "divrus16 32767 3",
    "cvt 3f000000", "cvt 3b008081", "cvt 3f800000", "cvt 00000000", "cvt 80000000", "cvt 7f800000", "cvt ff800000",
    "cvt4 3f800000 00000000 3f000000 3e800000", "cvt4 00000000 00000000 00000000 3f800000",
    "srgba8 3f800000 3f000000 3e4ccccd 3f000000", "srgba8 bf800000 40000000 00000000 bf800000",
    "srgb 3f000000", "srgb 00000000", "srgb 3f800000", "srgb 80000000",
    "pcg 42 54 6", "pcg 0 0 4", "pcg -1 -1 4",
    "biased 1 2 00000000 3f800000 8", "biased 0 0 bf800000 3f800000 8", "biased 7 7 40a00000 40a00000 3",
    "urdp 1 2 00000000 3f800000 8", "urd 00000000 3f800000 0 4294967295 4294967295", "urd c0000000 40a00000 1 2147483646 1",
    "urd 00000000 05400000 0 4294967295 4294967295",   # the known finding's witness (model and code agree; the oracle classifies it)
    "color 0", "color 1", "color 4294967295",
]


def gen_cases(rng, tier, h):
    n = 260 if tier == "quick" else 5000
    cases = []
    # hand seeds first (estimates for the unary ones fetched from this machine)
    cases.append(_render_unary(h, HAND_UNARY))
    cases.append(list(HAND_MISC))
    todo_all = [_unary_lines(rng, h, rng.randrange(6, 14)) for _ in range(n)]
    # one pre-pass for all estimates
    estimates(h, set(u for t in todo_all for _, u in t) | {FLT_MIN_B, FLT_MIN_B | 0x80000000})
    for todo in todo_all:
        c = _render_unary(h, todo)
        c += [_misc_line(rng) for _ in range(rng.randrange(10, 22))]
        rng.shuffle(c)
        cases.append(c)
    return cases


def nontrivial(case):
    return len(case) >= 3


# --------------------------------------------------------------------------- property oracle on the real code's observations

MASK64 = (1 << 64) - 1
PCG_MULT = 6364136223846793005


def ref_pcg32(seed, seq, n):
    """independent reference: the PCG32 of the PCG paper (pcg32_srandom_r / pcg32_random_r)."""
    inc = ((seq << 1) | 1) & MASK64
    state = 0
    state = (state * PCG_MULT + inc) & MASK64
    state = (state + (seed & MASK64)) & MASK64
    state = (state * PCG_MULT + inc) & MASK64
    out = []
    for _ in range(n):
        old = state
        state = (old * PCG_MULT + inc) & MASK64
        xs = (((old >> 18) ^ old) >> 27) & 0xFFFFFFFF
        rot = old >> 59
        out.append(((xs >> rot) | (xs << ((-rot) & 31))) & 0xFFFFFFFF)
    return out


def ulp_at(m):
    """spacing of floats at magnitude m"""
    m = abs(m)
    if m < 2.0 ** -126:
        return 2.0 ** -149
    return 2.0 ** (math.floor(math.log2(m)) - 23)


def oracle(line, out, mode):
    """None if the observation satisfies the property (or the property does not speak about it), else a message."""
    w = line.split()
    op = w[0]
    o = out.split()
    REL = 2.0 ** -20
    if op in ("rcp", "rsqrt"):
        x, y = h2f(w[1]), h2f(o[0])
        if y != y or abs(y) == INF:
            return "%s(x) is not finite for x in range" % op
        d = abs(y * x - 1.0) if op == "rcp" else abs(y * math.sqrt(x) - 1.0)
        if d > REL:
            return "%s relative error %.3g exceeds 2^-20" % (op, d)
    elif op == "rcp_safe":
        x, y = h2f(w[1]), h2f(o[0])
        if y != y or abs(y) == INF:
            return "rcp_safe(x) is not finite"
        if (x > 0 and y < 0) or (x < 0 and y > 0):
            return "rcp_safe(x) has the opposite sign of x"
    elif op == "sign":
        x, y = h2f(w[1]), h2f(o[0])
        if y != (-1.0 if x < 0 else 1.0):
            return "sign(x) must be x<0 ? -1 : 1"
    elif op in ("clamp", "clamp01"):
        x = h2f(w[1])
        lo, hi = (h2f(w[2]), h2f(w[3])) if op == "clamp" else (0.0, 1.0)
        y = h2f(o[0])
        if not (lo <= y <= hi):
            return "clamp result outside [lower,upper]"
        if lo <= x <= hi and y != x:
            return "clamp must return x when x is inside"
    elif op == "deg2rad":
        x, y = h2f(w[1]), h2f(o[0])
        e = r32(x * r32(1.745329251994329576923690768489e-2))
        if not (y == e or (y != y and e != e)):
            return "deg2rad(x) must be x * (pi/180 as float): expected %s" % f2h(e)
    elif op == "madd":
        a, b, c, y = h2f(w[1]), h2f(w[2]), h2f(w[3]), h2f(o[0])
        e = r32(r32(a * b) + c)
        if not (y == e or (y != y and e != e)):
            return "madd(a,b,c) must be a*b+c"
    elif op == "lerp":
        t, a, b, y = h2f(w[1]), h2f(w[2]), h2f(w[3]), h2f(o[0])
        e = r32(r32(r32(1.0 - t) * a) + r32(t * b))
        if not (y == e or (y != y and e != e)):
            return "lerp(f,a,b) must be (1-f)*a + f*b"
    elif op in ("divru32", "divru64", "divru8", "divru16", "divrus8", "divrus16"):
        a, b, q = int(w[1]), int(w[2]), int(o[0])
        if not (q * b >= a and (q - 1) * b < a):
            return "divRoundUp(a,b) must be the least q with q*b >= a"
    elif op == "cvt":
        x, v = h2f(w[1]), int(o[0])
        if not 0 <= v <= 255:
            return "cvt_uint32 outside 0..255"
        if x <= 0 and v != 0:
            return "cvt_uint32 must be 0 for inputs <= 0"
        if x >= 1 and v != 255:
            return "cvt_uint32 must be 255 for inputs >= 1"
    elif op == "pcg":
        if [int(t, 16) for t in o] != ref_pcg32(int(w[1]), int(w[2]), int(w[3])):
            return "pcg32 stream differs from the reference PCG32 for this (seed, sequence)"
    elif op in ("biased", "urdp", "urd", "urd2"):
        if op == "urd2":
            return None   # judged by the correspondence with the model only (three draws, two generator ranges)
        if op == "urd":
            lo, hi = h2f(w[1]), h2f(w[2])
            span = r32(float((int(w[4]) - int(w[3])) % 2 ** 32))
        else:
            lo, hi = h2f(w[3]), h2f(w[4])
            span = 2.0 ** 32
        tol = 2 * ulp_at(max(abs(lo), abs(hi)))
        for t in o:
            y = h2f(t)
            if not (lo - tol <= y <= hi + tol):
                # known finding: uniform_real_distribution whose scale (u-l)/float(max-min) is a denormal float
                if op != "biased" and y > hi and span > 0 and 0 < r32(hi - lo) / span < 2.0 ** -126:
                    return "KNOWN:" + KF_DENORMAL_SCALE
                return "distribution value %r outside [lower,upper] = [%r,%r] by more than a rounding step" % (y, lo, hi)
    elif op == "color":
        for t in o:
            y = h2f(t)
            if not (0.0 <= y <= 1.0 + 2.0 ** -23):
                return "makeRandomColor component outside [0,1]"
    return None


def _packing_cases(rng, n):
    """cvt4/srgba8 lines followed by the scalar lines for each channel (per-channel oracle)."""
    cases = []
    for _ in range(n):
        vs = [_cvt_val(rng) for _ in range(4)]
        hs = [f2h(v) for v in vs]
        cases.append(["cvt4 " + " ".join(hs)] + ["cvt " + x for x in hs]
                     + ["srgba8 " + " ".join(hs), "srgba " + " ".join(hs)])
    return cases


def _packing_oracle(case, outs):
    word = int(outs[0], 16)
    ch = [int(outs[1 + i]) for i in range(4)]
    for k in range(4):
        if (word >> (8 * k)) & 0xFF != ch[k]:
            return case[0], outs[0], "byte %d of cvt_uint32(vec4f) is not cvt_uint32 of channel %d" % (k, k)
    w8 = int(outs[5], 16)
    return None


def _monotone_oracle(pairs):
    """pairs (x, v) of cvt / srgb∘cvt observations: v must be non-decreasing in x."""
    pairs = sorted(pairs)
    for (x0, v0), (x1, v1) in zip(pairs, pairs[1:]):
        if v1 < v0:
            return x0, v0, x1, v1
    return None


def sweep_stage(rep, tier):
    n_eval = 0
    found = False
    samples = []
    stride = 1 if tier == "thorough" else QUICK_STRIDE
    for s in SWEEPS:
        hb, out = core.build_harness(s["name"], "harness/c07_sweep.cpp", (), s["flags"], [], "c++11", (), "-O2")
        if hb is None:
            rep.violation(dict(kind="harness-build-failed", harness=s["name"], output=out[-4000:],
                               note="the sweep no longer compiles against /repo's tree"), no_input=True)
            continue
        rc, o, e = core.sh([hb, str(stride), "16"], timeout=3000)
        summ = [l for l in o.splitlines() if l and not l.startswith("#")]
        info = [l for l in o.splitlines() if l.startswith("#")]
        expect = (["est_rcp", "est_rsqrt"] if s["mode"] == "simd" else []) + ["rcp", "rsqrt", "rcp_safe", "srgb8", "cvt8"]
        got = [l.split()[0] for l in summ]
        if rc != 0 or got != expect:
            rep.violation(dict(kind="sweep-crashed", harness=s["name"], rc=rc, stdout=o[-2000:], stderr=e[-2000:]), no_input=True)
            continue
        for l, inf in zip(summ, info):
            m = inf.split("count=")[1].split()[0]
            n_eval += int(m)
            w = l.split()
            if w[1] != "ok":
                found = True
                bits = w[2]
                rep.violation(dict(kind="sweep-" + w[3], build=s["mode"], kernel=w[0], x_bits=bits, x=repr(h2f(bits)),
                                   stride=stride, detail=inf,
                                   replay_cmd="harness/c07_sweep.cpp (%s) — kernel %s at bit pattern %s" % (" ".join(s["flags"]), w[0], bits),
                                   explanation="the real kernel violates the C07 contract on this float (first failing bit pattern of the sweep)"
                                   if not w[0].startswith("est_") else
                                   "the hardware estimate violates the bound the Lean theorem assumes (contract not met on this machine)"))
        samples.append(dict(sweep=s["name"], stride=stride, summary=summ, info=info))
        core.log("[C07] sweep %s stride %d: %s" % (s["name"], stride, "; ".join(summ)))
    return n_eval, found, samples


def extra_stage(rep, ctx):
    tier = ctx["tier"]
    known = ctx["known"]
    n_eval, found, samples = sweep_stage(rep, tier)
    rep.coverage["sweep_evaluations"] = n_eval
    distinct = set()
    # property oracle on the observations of the real code (independent generator stream)
    reported = 0
    for h in HARNESSES:
        hb = _harness_bin(h)
        if hb is None:
            continue
        rng = core.Rng(rep.seed * 7919 + (1 if h["mode"] == "simd" else 2))
        cases = core.load_corpus(ID) + gen_cases(rng, tier, h)
        pk = _packing_cases(rng, 60 if tier == "quick" else 1500)
        allc = cases + pk
        rc, out, err = core.run_prog(hb, core.cases_to_text(allc), timeout=600)
        io = core.split_output(out)
        # run twice: reproducibility from the seed (same lines, same process-independent output)
        rc2, out2, _ = core.run_prog(hb, core.cases_to_text(allc), timeout=600)
        if out != out2 and reported < 3:
            io2 = core.split_output(out2)
            k = next(k for k in range(len(allc)) if io.get(k) != io2.get(k))
            reported += 1
            found = True
            rep.violation(dict(kind="property-oracle", harness=h["name"], ops=allc[k], impl=io.get(k), impl_second_run=io2.get(k),
                               detail="the same op lines gave different results in two runs: not reproducible from the seed"))
        mono = {"cvt": [], "srgb8": []}
        for k, c in enumerate(allc):
            outs = io.get(k, [])
            for line, o in zip(c, outs):
                n_eval += 1
                distinct.add(line)
                try:
                    msg = oracle(line, o, h["mode"])
                except Exception as ex:  # malformed observation
                    msg = "unreadable observation %r (%r)" % (o, ex)
                w = line.split()
                if w[0] == "cvt" and o.isdigit():
                    x = h2f(w[1])
                    if x == x:
                        mono["cvt"].append((x, int(o)))
                if msg and msg.startswith("KNOWN:"):
                    fid = msg[6:]
                    if fid in known:
                        rep.known(fid, known[fid]["text"])
                        continue
                    msg = "uniform_real_distribution returns a value beyond upper (denormal scale)"
                if msg and reported < 3:
                    reported += 1
                    found = True
                    rep.violation(dict(kind="property-oracle", harness=h["name"], ops=[line], impl=[o], detail=msg,
                                       explanation="the real code's result violates the property statement on this input"))
            if k >= len(cases) and len(outs) == len(c):
                r = _packing_oracle(c, outs)
                if r and reported < 3:
                    reported += 1
                    found = True
                    rep.violation(dict(kind="property-oracle", harness=h["name"], ops=c, impl=outs, detail=r[2],
                                       explanation="the packed word is not per-channel"))
        bad = _monotone_oracle(mono["cvt"])
        if bad and reported < 3:
            reported += 1
            found = True
            rep.violation(dict(kind="property-oracle", harness=h["name"], ops=["cvt " + f2h(bad[0]), "cvt " + f2h(bad[2])],
                               impl=[str(bad[1]), str(bad[3])], detail="cvt_uint32 is not monotone"))
    return dict(evaluations=n_eval, distinct=distinct, samples=samples, found_input=found)


MANIFEST = dict(
    text=("PARTIAL. Lean 4 theorems over an executable model of rkmath.h's scalar kernels, vec.h's 8-bit packing and random.h's "
          "distributions, polymorphic over the scalar (any linearly ordered field in the proofs, Float32 in the compiled driver): "
          "the Newton-Raphson step of rcp turns an estimate error e into exactly -e^2 and, with the three float operations each "
          "rounded ((1+d), |d|<=2^-24) and |e|<=1.5*2^-12, the result is within 2^-20 of 1/x; likewise rsqrt (exact: -3e^2/2-e^3/2; "
          "all six rounded operations: within 2^-20); the NO_SIMD forms 1/x and 1/sqrt(x) are within 2^-20; rcp_safe hands rcp an "
          "argument of magnitude >= flt_min with the sign of x for EVERY x, hence a finite result that is positive for x>0 and negative "
          "for x<0; clamp stays in [lower,upper] and is the identity inside; divRoundUp is the least q with q*b>=a (a>=0,b>0, and the "
          "32-bit machine computation equals it when a+b-1 does not overflow); sign/lerp/deg2rad/madd equal their definitions; "
          "linear_to_srgb∘cvt_uint32 is monotone, 0 for inputs<=0, 255 for inputs>=1 and always in 0..255 (given pow and round "
          "monotone); byte k of the packed word is channel k; both float distributions stay in [lower,upper] in exact arithmetic and "
          "within an explicit rounding margin under the rounding model; streams are functions of (seed, sequence). NOT proved, only "
          "validated on this machine: the rcpss/rsqrtss estimate bound, monotonicity of libm powf, and the float rounding model — by "
          "an exhaustive sweep of all 2^32 bit patterns through the real kernels in both builds (thorough tier; every 3rd pattern plus "
          "all boundary neighbourhoods in the quick tier). The model is tied to the code by bit-exact comparison at Float32 in the "
          "SIMD and the NO_SIMD build (the hardware estimate is fed to the model as an input)."),
    note=("Trusted: Lean kernel + propext/Classical.choice/Quot.sound; hand-written model tied to the code only by the bit-exact "
          "correspondence harness (both builds); the standard model of float rounding; the estimate/powf contracts hold on the machine "
          "that runs the sweep (observed, not proved — this is why the claim is partial). rcp_safe: the theorem proves the strict form "
          "(x>=0 -> result>0, x<0 -> result<0) in the field model; the sweep checks 'finite and not of opposite sign' (for |x|>=2^126 "
          "the SIMD result underflows to a zero of the sign of x; rcp_safe(-0.0f) = +1/FLT_MIN because the code tests x >= 0.f). "
          "Known finding C07-uniform-real-denormal-scale: uniform_real_distribution<float> with a range narrower than 2^-94 returns "
          "values up to a third beyond upper (the rounded-range theorem is _partial: it assumes no underflow). Input restrictions: "
          "distribution ranges whose width overflows float, NaN inputs of cvt_uint32 (undefined float->uint conversion), signed "
          "overflow of a+b in divRoundUp (the exact side condition is a+b <= INT_MAX, stated in divRoundUp32_eq)."),
    technique="Lean 4 proof (ordered-field error analysis, bit arithmetic) + bit-exact differential check in two builds + exhaustive 2^32 sweep of the real kernels")
