"""C12 — cross-thread hand-off containers (TransactionalBuffer, TransactionalValue).

Three ties between the Lean model and /repo's current source:
  T  access table: for every method of the two classes the ordered accesses to each data member
     (read/write, inside which std::lock_guard scope, member is std::atomic?) are regenerated from the
     clang-14 JSON AST of the two headers on every run and written to lean/RkVerif/Gen/C12Table.lean;
     Props/C12.lean proves lockset_ok / tbuf_methods_atomic / tval_shape_ok over that table by `decide`.
  C  single-threaded op histories of both classes, real code (ASan/UBSan and TSan builds) vs compiled model.
  O  multi-threaded runs (1..8 producers + consumer; producer + consumer on a TransactionalValue) with an
     implementation-side oracle whose canonical summary line is compared with the line the theorems
     guarantee; the TSan build turns a data race into a crash attributed to the case.
"""
import json
import os
import re

from vlib import core

ID = "C12"
MODULE = "RkVerif.Props.C12"
DRIVER = "drv_c12"
THOROUGH_MODULES = ["RkVerif.Model.C12", "RkVerif.Lemmas.C12", "RkVerif.Gen.C12Table"]

HARNESSES = [
    dict(name="c12", src="harness/c12.cpp", mode="asan", timeout=900),
    dict(name="c12_tsan", src="harness/c12.cpp", san=core.TSAN, mode="tsan", timeout=900,
         # short frames (file:line only) so that the racing member and both call sites fit into the replay file
         env={"TSAN_OPTIONS": "exitcode=97:halt_on_error=1:second_deadlock_stack=1:stack_trace_format='#%n %S'"}),
]

RULE = ("(a) random single-threaded op histories over TransactionalBuffer<int|std::string|std::vector<int>> "
        "(push_back const&/&&, consume, size, empty) and TransactionalValue<same three payloads> (construct, assign, "
        "update, get, ref), every observation diffed against the Lean model; (b) multi-threaded runs: 1..8 producers "
        "pushing (producer, sequence number) elements while a consumer consumes/size()s/empty()s repeatedly "
        "(oracle: every element in exactly one batch, once, in its producer's order, batch length >= size() seen just "
        "before, non-empty after empty()==false), and one producer assigning 1..N to a TransactionalValue while the "
        "consumer calls update()/get() (oracle: update()==true iff get() moved to a strictly newer value, values valid "
        "and increasing, last value obtained after the producer stopped); 3 payload kinds, 4 pacing modes, a slow-copy "
        "payload that widens critical sections; the same cases run under ASan/UBSan and under TSan (a TSan report is a "
        "violation of 'no data race'). A case is non-trivial when it is multi-threaded or contains a consume/update that "
        "follows at least two pushes/assigns; distinct = distinct op sequences")

ASSUMPTIONS = [
    "C++ memory model replaced by sequential consistency with atomic mutex-protected sections: std::mutex/std::lock_guard "
    "give mutual exclusion and happens-before, std::atomic accesses are indivisible (DESIGN 5)",
    "std::vector push_back/move/size/empty and the payload's copy/move assignment behave per their specifications; a moved-from "
    "std::vector is empty (libstdc++), observed by the single-threaded histories",
    "the access-table extractor (clang-14 AST of the template patterns -> member accesses, lock_guard scopes) is faithful; "
    "unknown constructs fail closed",
    "roles of the documented usage: push_back = any number of producers, consume = one consumer, size/empty = any thread; "
    "operator= = one producer, update/get/ref = one consumer; constructors happen-before sharing",
    "multi-threaded runs sample schedules (OS scheduler + pacing modes); the proofs, not the runs, cover all interleavings",
]

EXPLAIN = ("the real TransactionalBuffer / TransactionalValue (or ThreadSanitizer watching them) produced an observation that "
           "differs from the Lean model for which tbuf_exactly_once, tbuf_no_torn_size, tval_sequence and lockset_ok are proved")

# --------------------------------------------------------------------------------------------------
# Tie T: access table from the clang AST
# --------------------------------------------------------------------------------------------------

CLASSES = [
    # (table name, header, namespace filter, class name, multi-producer?, role of each documented method)
    dict(tab="tbuf", header="rkcommon/containers/TransactionalBuffer.h", cls="TransactionalBuffer",
         roles={"push_back": "producer", "consume": "consumer", "size": "any", "empty": "any"}),
    dict(tab="tval", header="rkcommon/utility/TransactionalValue.h", cls="TransactionalValue",
         roles={"operator=": "producer", "update": "consumer", "get": "consumer", "ref": "consumer"}),
]
LOCK_TYPES = re.compile(r"^(const )?std::(lock_guard|unique_lock|scoped_lock)<")
MUTEX_TYPES = re.compile(r"^(mutable )?std::(recursive_|timed_|shared_)?mutex\b")
ATOMIC_TYPES = re.compile(r"^(mutable )?(volatile )?std::atomic(<|_)")
# members of std::vector / std::atomic that do not modify the object (the template patterns are dependent,
# so constness of the callee is not in the AST; anything not listed counts as a write)
CONST_CALLS = {"size", "empty", "capacity", "load", "max_size", "cbegin", "cend"}
MOVE_LIKE = {"move", "forward", "swap", "exchange"}

GEN_FILE = os.path.join(core.LEAN, "RkVerif", "Gen", "C12Table.lean")


class Unsupported(Exception):
    pass


def _parse_concat_json(txt):
    dec = json.JSONDecoder()
    i, objs, n = 0, [], len(txt)
    while i < n:
        while i < n and txt[i] in " \r\n\t":
            i += 1
        if i >= n:
            break
        if txt[i] != "{":
            j = txt.find("\n", i)
            i = n if j < 0 else j + 1
            continue
        o, i = dec.raw_decode(txt, i)
        objs.append(o)
    return objs


def clang_ast(repo):
    os.makedirs(core.CACHE, exist_ok=True)
    tu = os.path.join(core.CACHE, "c12_tu.cpp")
    with open(tu, "w") as fh:
        for c in CLASSES:
            fh.write('#include "%s"\n' % c["header"])
    cmd = ["clang++-14", "-std=gnu++17", "-I" + repo, "-I" + core.ensure_version_h(), "-fsyntax-only",
           "-Xclang", "-ast-dump=json", "-Xclang", "-ast-dump-filter=rkcommon::", tu]
    rc, out, err = core.sh(cmd, timeout=300)
    if rc != 0:
        raise Unsupported("clang failed: " + err[-1500:])
    return _parse_concat_json(out)


def _qt(n):
    return (n.get("type") or {}).get("qualType", "")


class _Extract:
    """Walks the template-pattern bodies of one class."""

    def __init__(self, objs, cls):
        self.cls = cls
        self.record = None
        self.fields = {}       # id -> dict(name, type, idx)
        self.methods = {}      # id of any declaration -> definition node
        self.defs = []         # definition nodes in source order
        self.alias = {}
        for o in objs:
            self._find_record(o)
        if self.record is None:
            raise Unsupported("class %s not found" % cls)
        for o in objs:
            self._find_methods(o, None)

    def _find_record(self, n):
        if n.get("kind") == "ClassTemplateDecl" and n.get("name") == self.cls:
            for c in n.get("inner", []):
                if c.get("kind") == "CXXRecordDecl" and c.get("completeDefinition"):
                    self.record = c
                    k = 0
                    for f in c.get("inner", []):
                        if f.get("kind") == "FieldDecl":
                            self.fields[f["id"]] = dict(name=f["name"], type=_qt(f), idx=k, mutable=bool(f.get("mutable")))
                            k += 1
        if n.get("kind") == "CXXRecordDecl" and n.get("name") == self.cls and n.get("completeDefinition") \
                and self.record is None and n.get("kind") != "ClassTemplateDecl":
            pass
        for c in n.get("inner", []):
            if self.record is None:
                self._find_record(c)

    def _find_methods(self, n, ctx):
        k = n.get("kind")
        if k in ("CXXMethodDecl", "CXXConstructorDecl", "CXXDestructorDecl", "CXXConversionDecl"):
            owner = n.get("parentDeclContextId") or ctx
            if owner == self.record["id"]:
                body = [c for c in n.get("inner", []) if c.get("kind") == "CompoundStmt"]
                if n.get("previousDecl"):
                    self.alias[n["id"]] = n["previousDecl"]
                if body:
                    self.defs.append(n)
                    self.methods[n["id"]] = n
                    if n.get("previousDecl"):
                        self.methods[n["previousDecl"]] = n
            return
        nctx = n["id"] if k == "CXXRecordDecl" else ctx
        for c in n.get("inner", []):
            self._find_methods(c, nctx)

    # ---- one method body
    def accesses(self, m):
        self.out = []
        self.nsect = 0
        self.stack = []
        self.ret_ref = bool(re.match(r"^[^(]*&\s*\(", _qt(m))) and not _qt(m).startswith("const ")
        body = [c for c in m.get("inner", []) if c.get("kind") == "CompoundStmt"][0]
        for c in m.get("inner", []):
            if c.get("kind") == "CXXCtorInitializer":
                self._expr(c, None, "write")
        self._stmt(body, None)
        return self.out

    def _is_this_field(self, n):
        if n.get("kind") != "MemberExpr":
            return None
        f = self.fields.get(n.get("referencedMemberDecl"))
        if not f:
            return None
        base = n.get("inner", [{}])[0]
        while base.get("kind") in ("ImplicitCastExpr", "ParenExpr"):
            base = base.get("inner", [{}])[0]
        if base.get("kind") != "CXXThisExpr":
            return None     # a member of another object: not this object's location
        return f

    def _lock_decl(self, n):
        """DeclStmt declaring a scoped lock on a mutex member -> field dict, else None."""
        if n.get("kind") != "DeclStmt":
            return None
        for v in n.get("inner", []):
            if v.get("kind") == "VarDecl" and LOCK_TYPES.match(_qt(v)):
                found = []
                self._collect_fields(v, found)
                mtx = [f for f in found if MUTEX_TYPES.match(f["type"])]
                if len(mtx) != 1 or len(found) != 1:
                    raise Unsupported("lock object %r not constructed from exactly one mutex member" % v.get("name"))
                if len([c for c in n.get("inner", []) if c.get("kind") == "VarDecl"]) != 1:
                    raise Unsupported("several declarations in one lock statement")
                return mtx[0], v
        return None

    def _collect_fields(self, n, acc):
        f = self._is_this_field(n)
        if f:
            acc.append(f)
        for c in n.get("inner", []):
            self._collect_fields(c, acc)

    def _stmt(self, n, sect):
        k = n.get("kind")
        if k == "CompoundStmt":
            cur = sect
            for c in n.get("inner", []):
                ld = self._lock_decl(c)
                if ld:
                    if cur is not None:
                        raise Unsupported("nested lock scopes")
                    cur = self.nsect
                    self.nsect += 1
                    self.lockvars = getattr(self, "lockvars", set()) | {ld[1]["id"]}
                    continue
                self._stmt(c, cur)
            return
        if k in ("IfStmt", "WhileStmt", "ForStmt", "DoStmt", "CXXForRangeStmt", "SwitchStmt", "CaseStmt", "DefaultStmt",
                 "LabelStmt", "AttributedStmt", "CXXTryStmt", "CXXCatchStmt"):
            for c in n.get("inner", []):
                if c.get("kind") is None:
                    continue
                self._stmt(c, sect)
            return
        if k == "DeclStmt":
            for v in n.get("inner", []):
                if v.get("kind") == "VarDecl":
                    if LOCK_TYPES.match(_qt(v)):
                        raise Unsupported("lock object declared outside a compound statement")
                    isref = _qt(v).rstrip().endswith("&") and not _qt(v).startswith("const ")
                    for c in v.get("inner", []):
                        self._expr(c, sect, "write" if isref else "read")
            return
        if k == "ReturnStmt":
            for c in n.get("inner", []):
                self._expr(c, sect, "write" if self.ret_ref else "read")
            return
        if k in ("NullStmt", "BreakStmt", "ContinueStmt"):
            return
        self._expr(n, sect, "discard")

    def _callee_name(self, callee):
        while callee.get("kind") in ("ImplicitCastExpr", "ParenExpr"):
            callee = callee.get("inner", [{}])[0]
        k = callee.get("kind")
        if k in ("CXXDependentScopeMemberExpr", "UnresolvedMemberExpr"):
            return "member", callee.get("member") or callee.get("name"), callee
        if k == "MemberExpr":
            return "member", callee.get("name"), callee
        if k in ("UnresolvedLookupExpr", "DeclRefExpr"):
            nm = callee.get("name") or (callee.get("referencedDecl") or {}).get("name")
            return "free", nm, callee
        return "other", None, callee

    def _expr(self, n, sect, ctx):
        """ctx: how the value of this expression is used: 'read' (copied/tested), 'write' (modified / escapes as a
        mutable reference), 'discard'."""
        k = n.get("kind")
        if k is None:
            return
        f = self._is_this_field(n)
        if f:
            if MUTEX_TYPES.match(f["type"]):
                raise Unsupported("mutex member %s used outside a scoped lock declaration" % f["name"])
            const = _qt(n).startswith("const ")
            write = (ctx != "read") and not const
            if ctx == "discard":
                write = False
            self.out.append(dict(loc=f["name"], write=bool(write), sect=sect,
                                 atomic=bool(ATOMIC_TYPES.match(f["type"]))))
            return
        inner = [c for c in n.get("inner", []) if c.get("kind")]
        if k in ("CompoundStmt", "IfStmt", "WhileStmt", "ForStmt", "DoStmt", "ReturnStmt", "DeclStmt"):
            self._stmt(n, sect)
            return
        if k == "LambdaExpr":
            raise Unsupported("lambda in a method body")
        if k in ("ImplicitCastExpr",) and n.get("castKind") == "LValueToRValue":
            for c in inner:
                self._expr(c, sect, "read")
            return
        if k == "ImplicitCastExpr" and n.get("castKind") == "NoOp" and _qt(n).startswith("const "):
            # bound to a const object parameter / const reference: cannot be modified through this path
            for c in inner:
                self._expr(c, sect, "read")
            return
        if k in ("ImplicitCastExpr", "ParenExpr", "ExprWithCleanups", "MaterializeTemporaryExpr", "CXXBindTemporaryExpr",
                 "CXXFunctionalCastExpr", "CXXStaticCastExpr", "CStyleCastExpr", "ConstantExpr"):
            for c in inner:
                self._expr(c, sect, ctx)
            return
        if k in ("BinaryOperator", "CompoundAssignOperator") and len(inner) == 2:
            op = n.get("opcode", "")
            if op == "=" or k == "CompoundAssignOperator" or (op.endswith("=") and op not in ("==", "!=", "<=", ">=")):
                self._expr(inner[1], sect, "read")      # C++17: right operand first
                if k == "CompoundAssignOperator":
                    self._expr(inner[0], sect, "read")
                self._expr(inner[0], sect, "write")
            elif op == ",":
                self._expr(inner[0], sect, "discard")
                self._expr(inner[1], sect, ctx)
            else:
                self._expr(inner[0], sect, "read")
                self._expr(inner[1], sect, "read")
            return
        if k == "UnaryOperator":
            op = n.get("opcode", "")
            if op in ("++", "--"):
                self._expr(inner[0], sect, "read")
                self._expr(inner[0], sect, "write")
            elif op == "&":
                self._expr(inner[0], sect, "write")     # address escapes
            elif op == "*" and inner and inner[0].get("kind") == "CXXThisExpr":
                return
            else:
                for c in inner:
                    self._expr(c, sect, "read")
            return
        if k == "CXXOperatorCallExpr" and inner:
            # inner[0] = callee, inner[1:] = operands
            callee = inner[0]
            while callee.get("kind") in ("ImplicitCastExpr",):
                callee = callee["inner"][0]
            nm = (callee.get("referencedDecl") or {}).get("name", "") or callee.get("name", "")
            ops = inner[1:]
            if nm in ("operator=",) or (nm.startswith("operator") and nm.endswith("=") and nm not in
                                        ("operator==", "operator!=", "operator<=", "operator>=")):
                for c in ops[1:]:
                    self._expr(c, sect, "read")
                self._expr(ops[0], sect, "write")
            elif nm in ("operator++", "operator--"):
                self._expr(ops[0], sect, "write")
            else:
                for c in ops:
                    self._expr(c, sect, "read" if nm in ("operator==", "operator!=", "operator<", "operator>", "operator<=",
                                                        "operator>=", "operator[]", "operator bool") else "write")
            return
        if k in ("CallExpr", "CXXMemberCallExpr") and inner:
            kind, nm, callee = self._callee_name(inner[0])
            args = inner[1:]
            if kind == "member":
                base = [c for c in callee.get("inner", []) if c.get("kind")]
                base = base[0] if base else None
                b = base
                while b is not None and b.get("kind") in ("ImplicitCastExpr", "ParenExpr"):
                    b = b["inner"][0]
                # call of one of this class's own methods on *this: inline its body at this lock state
                target = callee.get("referencedMemberDecl")
                if b is not None and b.get("kind") == "CXXThisExpr" and (target in self.methods or target in self.alias):
                    m = self.methods.get(target) or self.methods.get(self.alias.get(target))
                    if m is None:
                        raise Unsupported("call of a member function without a visible body")
                    if m["id"] in self.stack or len(self.stack) > 6:
                        raise Unsupported("recursive member call")
                    for a in args:
                        self._expr(a, sect, "write")
                    self.stack.append(m["id"])
                    if sect is None:
                        save = self.ret_ref
                        self.ret_ref = True
                        self._stmt([c for c in m["inner"] if c.get("kind") == "CompoundStmt"][0], None)
                        self.ret_ref = save
                    else:
                        body = [c for c in m["inner"] if c.get("kind") == "CompoundStmt"][0]
                        if self._has_lock(body):
                            raise Unsupported("member call under a lock into a method that locks (self-deadlock)")
                        save = self.ret_ref
                        self.ret_ref = True
                        self._stmt(body, sect)
                        self.ret_ref = save
                    self.stack.pop()
                    return
                if b is not None and b.get("kind") == "DeclRefExpr" and \
                        (b.get("referencedDecl") or {}).get("id") in getattr(self, "lockvars", set()):
                    raise Unsupported("explicit %s() on a scoped lock object" % nm)
                if base is not None:
                    self._expr(base, sect, "read" if nm in CONST_CALLS else "write")
                for a in args:
                    self._expr(a, sect, "write")    # bound to an unknown (possibly mutable reference) parameter
                return
            if kind == "free" and nm in MOVE_LIKE:
                for a in args:
                    self._expr(a, sect, "write")
                return
            for c in inner:
                self._expr(c, sect, "write")
            return
        if k == "CXXThisExpr":
            if ctx == "write":
                # `this` itself handed out (other than `return *this`): every member may be touched
                raise Unsupported("this pointer escapes")
            return
        if k in ("ConditionalOperator",):
            self._expr(inner[0], sect, "read")
            for c in inner[1:]:
                self._expr(c, sect, ctx)
            return
        if k in ("CXXConstructExpr", "CXXTemporaryObjectExpr", "InitListExpr", "CXXUnresolvedConstructExpr", "ParenListExpr"):
            if LOCK_TYPES.match(_qt(n)):
                raise Unsupported("temporary lock object (unlocks at the end of the full expression)")
            for c in inner:
                self._expr(c, sect, "read" if ctx == "read" else "write")
            return
        if k == "CXXCtorInitializer":
            for c in inner:
                self._expr(c, sect, "read")
            return
        # literals, DeclRefExpr to locals/params, sizeof, ...: descend conservatively
        for c in inner:
            self._expr(c, sect, ctx if ctx != "discard" else "read")

    def _has_lock(self, n):
        if n.get("kind") == "VarDecl" and LOCK_TYPES.match(_qt(n)):
            return True
        return any(self._has_lock(c) for c in n.get("inner", []) if isinstance(c, dict))


def extract_tables(repo):
    """-> list of dict(tab, cls, header, locs[], mutexes[], methods[dict(name, sig, role, line)], rows[dict(meth, role, loc, write, sect, atomic)])"""
    objs = clang_ast(repo)
    res = []
    for c in CLASSES:
        ex = _Extract(objs, c["cls"])
        fields = sorted(ex.fields.values(), key=lambda f: f["idx"])
        mutexes = [f["name"] for f in fields if MUTEX_TYPES.match(f["type"])]
        if len(mutexes) != 1:
            raise Unsupported("%s: expected exactly one mutex member, found %r" % (c["cls"], mutexes))
        locs = [f["name"] for f in fields if not MUTEX_TYPES.match(f["type"])]
        methods, rows = [], []
        for m in ex.defs:
            nm = m.get("name", "?")
            if m["kind"] in ("CXXConstructorDecl", "CXXDestructorDecl"):
                role = "init"
            else:
                role = c["roles"].get(nm, "other")
            mi = len(methods)
            methods.append(dict(name=nm, sig=_qt(m), role=role, line=(m.get("loc") or {}).get("line")))
            ex.lockvars = set()
            for a in ex.accesses(m):
                rows.append(dict(meth=mi, role=role, loc=locs.index(a["loc"]), write=a["write"], sect=a["sect"], atomic=a["atomic"]))
        declared = [x for x in ex.record.get("inner", []) if x.get("kind") in ("CXXMethodDecl",) and not x.get("isImplicit")]
        for t in ex.record.get("inner", []):
            if t.get("kind") == "FunctionTemplateDecl":
                declared += [x for x in t.get("inner", []) if x.get("kind") == "CXXMethodDecl"]
        for d in declared:
            if d["id"] not in ex.methods and c["roles"].get(d.get("name")):
                raise Unsupported("%s::%s has no visible body" % (c["cls"], d.get("name")))
        for want in c["roles"]:
            if not any(m["name"] == want for m in methods):
                raise Unsupported("%s::%s not found" % (c["cls"], want))
        res.append(dict(tab=c["tab"], cls=c["cls"], header=c["header"], locs=locs, mutexes=mutexes, methods=methods, rows=rows,
                        atomic_locs=[f["name"] for f in fields if ATOMIC_TYPES.match(f["type"])]))
    return res


def _lean_str(s):
    return '"' + s.replace("\\", "\\\\").replace('"', '\\"') + '"'


def render_lean(tables):
    out = ["/- GENERATED by props/c12.py (tie T of property C12) from the clang-14 AST of",
           "   " + ", ".join(t["header"] for t in tables) + ".",
           "   Regenerated from VERIF_REPO's tree before every build; the committed copy is a snapshot. Do not edit.",
           "   One row per access of a method of the class to a non-mutex data member of *this, in evaluation order:",
           "   meth = index into <tab>Methods, loc = index into <tab>Locs, sect = index of the scoped-lock section of the",
           "   method the access lies in (none = no lock held), atomic = member is std::atomic. -/",
           "import RkVerif.Model.C12", "namespace RkVerif.C12.Gen", "open RkVerif.C12", ""]
    for t in tables:
        n = t["tab"]
        out.append("/-- data members of %s (mutex members %s are synchronisation objects, not locations) -/" % (t["cls"], ", ".join(t["mutexes"])))
        out.append("def %sLocs : List String := [%s]" % (n, ", ".join(_lean_str(x) for x in t["locs"])))
        out.append("def %sMethods : List String := [%s]" % (n, ", ".join(_lean_str("%s : %s" % (m["name"], m["sig"])) for m in t["methods"])))
        out.append("def %sTable : List Access := [" % n)
        rows = []
        for r in t["rows"]:
            rows.append("  { meth := %d, role := .%s, loc := %d, write := %s, sect := %s, atomic := %s }" % (
                r["meth"], r["role"] if r["role"] != "any" else "anyThread", r["loc"], "true" if r["write"] else "false",
                "none" if r["sect"] is None else "some %d" % r["sect"], "true" if r["atomic"] else "false"))
        out.append(",\n".join(rows))
        out.append("]")
        out.append("")
    out.append("end RkVerif.C12.Gen")
    return "\n".join(out) + "\n"


def describe(tables):
    d = {}
    for t in tables:
        rows = []
        for r in t["rows"]:
            m = t["methods"][r["meth"]]
            rows.append("%s[%s] %s %s %s%s" % (m["name"], r["role"], "W" if r["write"] else "R", t["locs"][r["loc"]],
                                             "unlocked" if r["sect"] is None else "lock#%d" % r["sect"],
                                             " atomic" if r["atomic"] else ""))
        d[t["cls"]] = rows
    return d


def races(tables):
    """Python mirror of Lean's locksetOk (used only to explain a failure in the replay file)."""
    out = []
    for t in tables:
        multi = t["tab"] == "tbuf"

        def conc(a, b):
            s = {a, b}
            if "init" in s or "other" in s:
                return False
            if "any" in s:
                return True
            if a == b:
                return a == "producer" and multi
            return True
        for i, a in enumerate(t["rows"]):
            for b in t["rows"][i:]:
                if a["loc"] == b["loc"] and conc(a["role"], b["role"]) and (a["write"] or b["write"]) and not (
                        (a["sect"] is not None and b["sect"] is not None) or (a["atomic"] and b["atomic"])):
                    ma, mb = t["methods"][a["meth"]], t["methods"][b["meth"]]
                    out.append("%s::%s: %s %s in %s() [%s, %s] vs %s in %s() [%s, %s]" % (
                        t["cls"], t["locs"][a["loc"]],
                        "write" if a["write"] else "read", "", ma["name"], a["role"], "unlocked" if a["sect"] is None else "locked",
                        "write" if b["write"] else "read", mb["name"], b["role"], "unlocked" if b["sect"] is None else "locked"))
    return sorted(set(out))


_TABLES = None


def regenerate(rep):
    """Hook of vlib/runner.py: rewrite lean/RkVerif/Gen/C12Table.lean from VERIF_REPO's tree (fail closed)."""
    global _TABLES
    try:
        tables = extract_tables(core.REPO)
    except Unsupported as ex:
        rep.notes.append("access-table extraction failed: %s" % ex)
        return dict(kind="access-table-extraction-failed", error=str(ex),
                    note="the two headers use a construct the lockset extractor does not understand; the atomic-step model is no longer justified")
    _TABLES = tables
    txt = render_lean(tables)
    with core.LeanLock():
        old = open(GEN_FILE).read() if os.path.exists(GEN_FILE) else None
        if old != txt:
            os.makedirs(os.path.dirname(GEN_FILE), exist_ok=True)
            with open(GEN_FILE + ".tmp", "w") as fh:
                fh.write(txt)
            os.replace(GEN_FILE + ".tmp", GEN_FILE)
    rep.coverage["access_table"] = describe(tables)
    rc = races(tables)
    if rc:
        rep.notes.append("lockset: unprotected conflicting accesses in the regenerated table: " + " | ".join(rc))
    # the driver depends on the model only; build it first so that the dynamic search for a replay still runs
    # when a theorem over the regenerated table no longer checks
    core.lean_build([DRIVER])
    return None


# --------------------------------------------------------------------------------------------------
# Ties C and O: cases
# --------------------------------------------------------------------------------------------------

FIXED_PREFIX = 1        # the constructor line of a history is kept by the shrinker
KINDS = ["i", "s", "v", "w"]


def _buf_history(rng):
    c = ["tb_new " + rng.pick(KINDS)]
    nxt = [0, 0, 0, 0]
    for _ in range(rng.randint(3, 40)):
        r = rng.random()
        if r < 0.50:
            p = rng.randrange(4)
            if rng.chance(0.8):
                x = nxt[p]
                nxt[p] += 1
            else:
                x = rng.randrange(3)        # the same element pushed again must come out again
            c.append("%s %d %d" % (rng.pick(["push", "pushm", "pushl"]), p, x))
        elif r < 0.56:
            # a push during which the next allocation fails (bad_alloc): nothing may change, size()/empty() included
            c.append("push_fail %d %d" % (rng.randrange(4), 90 + rng.randrange(5)))
            c.append(rng.pick(["size", "empty", "size"]))
        elif r < 0.70:
            c.append("consume")
        elif r < 0.86:
            c.append("size")
        else:
            c.append("empty")
    c += ["size", "empty", "consume", "consume", "size", "empty"]
    return c


def _val_history(rng):
    c = ["tv_new %s %s" % (rng.pick(KINDS), "-" if rng.chance(0.3) else str(rng.randrange(0, 9)))]
    for _ in range(rng.randint(3, 30)):
        r = rng.random()
        if r < 0.06:
            c.append("assignz")
        elif r < 0.14 and c[0].split()[1] == "w":
            # an assignment whose payload copy fails (bad_alloc): nothing was assigned
            c.append("assign_fail %d" % rng.randrange(1, 9))
            c.append(rng.pick(["update", "update", "get"]))
        elif r < 0.12 and len(c) > 1 and c[-1].startswith("update"):
            prev = [l for l in c if l.startswith("assign ")]
            c.append(prev[-1] if prev else "assign 3")       # the same value again, after a hand-over
        elif r < 0.35:
            c.append("assign %d" % rng.randrange(1, 9))
        elif r < 0.65:
            c.append("update")
        elif r < 0.85:
            c.append("get")
        else:
            c.append("ref")
    c += ["update", "get", "update", "ref"]
    return c


def gen_cases(rng, tier, h):
    quick = tier == "quick"
    cases = []
    for _ in range(150 if quick else 2500):
        cases.append(_buf_history(rng))
        cases.append(_val_history(rng))
    # multi-threaded runs; every (payload kind, pacing mode) pair and every producer count 1..8 occurs
    nb = 64 if quick else 800
    sizes_b = [1, 17, 200, 1200, 4000] if quick else [1, 17, 200, 1200, 5000, 20000]
    sizes_v = [1, 50, 800, 4000, 12000] if quick else [1, 50, 800, 4000, 20000, 100000]
    for k in range(nb):
        kind = KINDS[k % 4]
        mode = (k // 4) % 4
        P = 1 + (k % 8) if k < 16 else rng.randint(1, 8)
        n = rng.pick(sizes_b)
        if kind == "w":
            n = min(n, 300)
        cases.append(["mt_buf %s %d %d %d %d" % (kind, P, n, mode, rng.randrange(1 << 30))])
        n = rng.pick(sizes_v)
        if kind == "w":
            n = min(n, 800)
        cases.append(["mt_val %s %d %d %d" % (kind, n, mode, rng.randrange(1 << 30))])
    return cases


def nontrivial(case):
    if case and case[0].startswith("mt_"):
        return True
    pushes = 0
    for l in case:
        w = l.split()[0]
        if w in ("push", "pushm", "pushl", "assign", "assignz", "assign_fail"):
            pushes += 1
        elif w in ("consume", "update") and pushes >= 2:
            return True
    return False


def extra_stage(rep, ctx):
    """Explain a lockset failure in the evidence (the decision itself is Lean's `decide` in Props/C12.lean)."""
    if _TABLES is not None:
        rc = races(_TABLES)
        rep.coverage["lockset_python_mirror"] = rc if rc else "no unprotected conflicting pair"
    return None


MANIFEST = dict(
    text=("Lean 4 theorems over an executable model of TransactionalBuffer and TransactionalValue: for any number of producers and every "
          "interleaving, consumed batches ++ pending buffer restricted to a producer equals its pushes in order (tbuf_exactly_once, "
          "tbuf_each_once, tbuf_drained), size()/empty() always equal pushes minus consumed (tbuf_no_torn_size, tbuf_size_then_consume); "
          "for every interleaving of assign with update()'s flag read / lock section and get(): values seen are assigned values in "
          "assignment order, update() is true iff a strictly newer value was installed, and after the producer stops one more update() "
          "yields the last value (tval_sequence, tval_seen_was_assigned, tval_final). The atomic-step granularity of the model and data-race "
          "freedom are proved by `decide` over an access table (member x read/write x lock scope x atomic, per method and role) that is "
          "regenerated from the clang AST of the two headers on every run (lockset_ok, tbuf_methods_atomic, tval_shape_ok; the unfixed "
          "header's race is a proved witness, lockset_unfixed_race). The model is tied to the code by single-threaded op histories and by "
          "multi-threaded runs (1..8 producers, int/std::string/std::vector/slow-copy payloads; pushes and assignments during which the payload's allocation fails) of the real classes under ASan/UBSan and "
          "TSan whose oracle summary is compared with the one the theorems guarantee."),
    note=("Trusted: Lean kernel; axioms propext/Classical.choice/Quot.sound; sequential consistency with atomic mutex-protected sections "
          "in place of the C++ memory model (std::mutex, std::atomic, std::vector meet their specifications); the clang-AST access-table "
          "extractor (fails closed on constructs it does not know); the role assignment of the documented usage; harness, generators, "
          "g++/ASan/UBSan/TSan runtimes. Multi-threaded runs sample schedules only; all-interleavings coverage comes from the proofs. "
          "Defect fixed by fixes/C12-tval-flag-race.patch (newValue read outside the mutex)."),
    technique="Lean 4 proof (inductive invariants over all interleavings + decide over a source-regenerated lockset table) + differential "
              "correspondence check and TSan-instrumented multi-threaded oracle runs")
