"""C03 — AsyncLoop honours its start/stop/destroy protocol on every interleaving.

Proof: Lean theorems over the finite transition system AsyncLoopM (lean/RkVerif/Model/C03.lean), closed-set
certificates checked by the kernel (Props/C03.lean).  Tie: (i) structural fingerprint of AsyncLoop.h vs the
one the model was written against, (ii) model-guided forced schedules replayed on the real class through
the scheduling points of fixes/hook-C03-schedpoints.patch and diffed against the compiled model.
See notes/C03.md.
"""
import concurrent.futures
import json
import os
import re
import sys
import time

from vlib import core

ID = "C03"
MODULE = "RkVerif.Props.C03"
DRIVER = "drv_c03"
THOROUGH_MODULES = ["RkVerif.Model.C03", "RkVerif.Gen.C03Reach", "RkVerif.Lemmas.C03"]
HEADER = "rkcommon/tasking/AsyncLoop.h"
_SRCS = ["rkcommon/tasking/detail/tasking_system_init.cpp"]

RULE = ("forced schedules computed from the Lean model's hook-level transition graph (every edge of the graph for "
        "both launch methods, the original code's counterexample and its prefixes as near misses, seeded random "
        "walks; thorough: per call sequence of length <= 4 a depth-first cover of all (state, remaining calls) "
        "pairs) replayed on the real AsyncLoop through its scheduling points; each grant's arrival point, "
        "body entry/exit and member-function returns are diffed against the model; a case is non-trivial when it "
        "has at least 2 member-function calls and 8 grants; distinct = distinct schedules")
ASSUMPTIONS = [
    "sequential consistency for the three std::atomic<bool> (all accesses in AsyncLoop.h are seq_cst)",
    "std::mutex, std::condition_variable::wait(lock, pred) (= while(!pred()) wait(lock)), notify_one, std::thread::join, "
    "std::shared_ptr and tbb::task_arena::enqueue meet their specifications",
    "liveness theorems: weak fairness (incl. 'the body returns'), finitely many spurious wake-ups; 'bounded time' is "
    "'bounded number of loop-thread steps' (K = 10)",
    "spurious wake-ups are covered by the proof but cannot be forced on the real condition variable, so the tie does not exercise them",
    "hook granularity: the two loads of the wait predicate are one grant (the model separates them)",
]
EXPLAIN = ("the real AsyncLoop and the Lean model (for which stop_safety, no_lost_wakeup, destroy_terminates are proved) "
           "disagree on the hook point a granted thread arrives at, or the implementation-side oracle saw a body "
           "invocation while stopped / after destruction / no body after start() returned")

# --------------------------------------------------------------------------- structural fingerprint

_TOK = re.compile(
    r"(?P<atom>std::atomic<bool>\s+(?P<an>\w+)\s*\{\s*(?P<av>\w+)\s*\})"
    r"|(?P<acc>\b(?:l|loop)->(?P<fn>threadShouldBeAlive|shouldBeRunning|insideLoopBody)\b(?P<rest>\s*(?:\.load\(\))?\s*(?:=(?!=)\s*(?P<val>\w+))?))"
    r"|(?P<lock>std::unique_lock<std::mutex>\s+\w+\((?:l|loop)->runningMutex\)|std::lock_guard<std::mutex>\s+\w+\((?:l|loop)->runningMutex\))"
    r"|(?P<wait>runningCond\s*\.\s*wait(?:_for|_until)?\s*\()"
    r"|(?P<notify>runningCond\s*\.\s*notify_(?:one|all)\s*\()"
    r"|(?P<join>backgroundThread\s*\.\s*(?:joinable|join|detach)\s*\()"
    r"|(?P<spawn>std::thread\s*\(\s*mainLoop\s*\)|tasking::schedule\s*\(\s*mainLoop\s*\))"
    r"|(?P<call>\bfcn\s*\(\s*\))"
    r"|(?P<yield>\byield\s*\(\s*\)|sleep_for|sleep_until)"
    r"|(?P<kw>\b(?:while|if|else|return|for|do|break|continue|goto)\b)"
    r"|(?P<op>\|\||&&|!(?!=)|[{}])")


def _strip(text):
    text = re.sub(r"/\*.*?\*/", " ", text, flags=re.S)
    text = re.sub(r"//[^\n]*", "", text)
    # the verification prelude and scheduling points are not part of the protocol
    text = re.sub(r"#ifdef RKCOMMON_VERIF\b.*?#endif", " ", text, flags=re.S)
    text = re.sub(r"RKCOMMON_VERIF_POINT(?:_AT_SCOPE_EXIT)?\s*\(\s*\"[^\"]*\"\s*\)\s*;", " ", text)
    return text


def _block(text, start_pat):
    """text from the match of start_pat to the brace that closes the first '{' after it"""
    m = re.search(start_pat, text)
    if not m:
        return None
    i = text.index("{", m.end() - 1) if "{" in text[m.end() - 1:] else -1
    if i < 0:
        return None
    depth, j = 0, i
    while j < len(text):
        if text[j] == "{":
            depth += 1
        elif text[j] == "}":
            depth -= 1
            if depth == 0:
                return text[m.start():j + 1]
        j += 1
    return None


def _tokens(block):
    out = []
    for m in _TOK.finditer(block):
        if m.group("atom"):
            out.append("atomic:%s=%s" % (m.group("an"), m.group("av")))
        elif m.group("acc"):
            out.append(("W:%s=%s" % (m.group("fn"), m.group("val"))) if m.group("val") else "R:" + m.group("fn"))
        elif m.group("lock"):
            out.append("lock")
        elif m.group("wait"):
            out.append(re.sub(r"\s|\(|runningCond\.", "", m.group("wait")))
        elif m.group("notify"):
            out.append(re.sub(r"\s|\(|runningCond\.", "", m.group("notify")))
        elif m.group("join"):
            out.append(re.sub(r"\s|\(|backgroundThread\.", "", m.group("join")))
        elif m.group("spawn"):
            out.append("spawn:" + ("thread" if "std::thread" in m.group("spawn") else "task"))
        elif m.group("call"):
            out.append("call:fcn")
        elif m.group("yield"):
            out.append("yield")
        elif m.group("kw"):
            out.append(m.group("kw"))
        else:
            out.append(m.group("op"))
    return out


def fingerprint(text):
    t = _strip(text)
    regions = dict(
        data=_block(t, r"struct\s+AsyncLoopData\b"),
        loop=_block(t, r"auto\s+mainLoop\s*=\s*\[l,\s*fcn\]\s*\(\)\s*"),
        launch=None,
        dtor=_block(t, r"inline\s+AsyncLoop::~AsyncLoop\s*\(\)\s*"),
        start=_block(t, r"inline\s+void\s+AsyncLoop::start\s*\(\)\s*"),
        stop=_block(t, r"inline\s+void\s+AsyncLoop::stop\s*\(\)\s*"))
    m = re.search(r"if\s*\(m == AUTO\).*?tasking::schedule\s*\(\s*mainLoop\s*\)\s*;", t, flags=re.S)
    regions["launch"] = m.group(0) if m else None
    return {k: (_tokens(v) if v is not None else None) for k, v in regions.items()}


_COMMON = {
    "data": ["{", "atomic:threadShouldBeAlive=true", "atomic:shouldBeRunning=false", "atomic:insideLoopBody=false", "}"],
    "launch": ["if", "if", "spawn:thread", "else", "spawn:task"],
    "dtor": ["{", "{", "lock", "W:threadShouldBeAlive=false", "W:shouldBeRunning=false", "}", "notify_one",
             "if", "joinable", "{", "join", "}", "}"],
    "start": ["{", "if", "!", "R:shouldBeRunning", "{", "{", "lock", "W:shouldBeRunning=true", "}", "notify_one", "}", "}"],
    "stop": ["{", "if", "R:shouldBeRunning", "{", "W:shouldBeRunning=false", "while", "R:insideLoopBody", "{", "yield",
             "}", "}", "}"],
}
_WAIT = ["lock", "wait", "{", "return", "R:shouldBeRunning", "||", "!", "R:threadShouldBeAlive", "}"]
FP_FIXED = dict(_COMMON, loop=["{", "while", "R:threadShouldBeAlive", "{", "if", "!", "R:threadShouldBeAlive", "return",
                               "W:insideLoopBody=true", "if", "R:shouldBeRunning", "{", "call:fcn",
                               "W:insideLoopBody=false", "}", "else", "{", "W:insideLoopBody=false"] + _WAIT + ["}", "}", "}"])
FP_ORIG = dict(_COMMON, loop=["{", "while", "R:threadShouldBeAlive", "{", "if", "!", "R:threadShouldBeAlive", "return",
                              "if", "R:shouldBeRunning", "{", "W:insideLoopBody=true", "call:fcn",
                              "W:insideLoopBody=false", "}", "else", "{"] + _WAIT + ["}", "}", "}"])


def classify_tree():
    """-> (variant 'fixed'|'orig'|'unknown', fingerprint, diff text)"""
    text = open(os.path.join(core.REPO, HEADER)).read()
    fp = fingerprint(text)
    if fp == FP_FIXED:
        return "fixed", fp, ""
    if fp == FP_ORIG:
        return "orig", fp, ""
    diffs = []
    for k in FP_FIXED:
        if fp.get(k) != FP_FIXED[k]:
            diffs.append("%s: found %s, model(fixed) expects %s" % (k, fp.get(k), FP_FIXED[k]))
    return "unknown", fp, "; ".join(diffs)


# --------------------------------------------------------------------------- harness build (hooks)

def build(rep):
    """Build the harness against the tree.  If the tree has no scheduling points, a private instrumented copy of
    the header (tools/c03_hooks.py, the generator of the hook patch) is used instead.  -> (bin|None, info)"""
    hdr = os.path.join(core.REPO, HEADER)
    text = open(hdr).read()
    flags = ["-DRKCOMMON_TASKING_TBB"]
    info = "hooks in tree"
    if "RKCOMMON_VERIF_POINT" not in text:
        sys.path.insert(0, os.path.join(core.ROOT, "tools"))
        import c03_hooks
        inst, missing = c03_hooks.instrument(text)
        if missing:
            return None, "tree has no scheduling points and they cannot be placed automatically (anchors missing: %s)" % ", ".join(missing)
        d = os.path.join(core.CACHE, "c03_overlay", "rkcommon", "tasking")
        os.makedirs(d, exist_ok=True)
        dst = os.path.join(d, "AsyncLoop.h")
        if not os.path.exists(dst) or open(dst).read() != inst:
            open(dst, "w").write(inst)
        flags += ["-DC03_ASYNCLOOP_HEADER=\"%s\"" % dst, "-I" + os.path.join(core.REPO, "rkcommon", "tasking")]
        info = "tree has no hook commit: private instrumented copy of AsyncLoop.h (tools/c03_hooks.py)"
    hb, out = core.build_harness("c03", "harness/c03.cpp", _SRCS, flags=flags, libs=["-ltbb"])
    if hb is None:
        return None, out
    return hb, info


# --------------------------------------------------------------------------- model graph and schedules

class Graph:
    def __init__(self, variant, launch):
        rc, out, err = core.sh([core.driver_path(DRIVER), "graph", variant, launch], timeout=120)
        if rc != 0:
            raise RuntimeError("drv_c03 graph failed: " + err[:500])
        self.variant, self.launch = variant, launch
        self.adj, self.info, self.init = {}, {}, None
        for line in out.splitlines():
            w = line.split()
            if w[0] == "init":
                self.init = int(w[1])
            elif w[0] == "n":
                self.info[int(w[1])] = dict(kv.split("=") for kv in w[2:])
            elif w[0] == "e":
                i = w.index(">")
                self.adj.setdefault(int(w[1]), []).append((" ".join(w[3:i]), int(w[2]), " ".join(w[i + 1:])))
        for n in self.info:
            self.adj.setdefault(n, [])
        # urgent nodes have only the loop edge (the driver already restricts them); shortest paths:
        self.parent = {self.init: None}
        todo = [self.init]
        while todo:
            u = todo.pop(0)
            for lab, v, _ in self.adj[u]:
                if v not in self.parent:
                    self.parent[v] = (u, lab)
                    todo.append(v)

    def path_to(self, n):
        ops = []
        while self.parent[n] is not None:
            n, lab = self.parent[n]
            ops.append(lab)
        return ops[::-1]

    def walk(self, ops, start=None):
        """follow labels from init; returns (node, consumed) — stops at the first label not enabled"""
        n = self.init if start is None else start
        k = 0
        for lab in ops:
            nxt = [v for l, v, _ in self.adj[n] if l == lab]
            if not nxt:
                break
            n = nxt[0]
            k += 1
        return n, k

    def must_continue(self, n):
        """the loop thread has been woken and the mutex is free: its re-acquisition cannot be held back"""
        e = self.adj[n]
        return len(e) == 1 and e[0][0] == "g loop" and self.info[n]["loop"] == "blocked"

    def settle(self, n, ops):
        while self.must_continue(n):
            ops.append("g loop")
            n = self.adj[n][0][1]
        return n

    def case(self, ops):
        return ["cfg %s %s" % (self.variant, self.launch)] + list(ops) + ["end"]


def edge_cover(g, rng):
    """schedules that together take every edge of the hook-level graph at least once"""
    covered, cases = set(), []
    edges = [(u, lab, v) for u in sorted(g.adj) for lab, v, _ in g.adj[u] if u in g.parent]
    edges.sort(key=lambda e: -len(g.path_to(e[0])))
    for u, lab, v in edges:
        if (u, lab) in covered:
            continue
        ops = g.path_to(u) + [lab]
        n = v
        for _ in range(rng.randint(0, 6)):
            if not g.adj[n]:
                break
            l2, n2, _ = rng.pick(g.adj[n])
            ops.append(l2)
            n = n2
        g.settle(n, ops)
        m = g.init
        for l in ops:
            covered.add((m, l))
            m = [x for ll, x, _ in g.adj[m] if ll == l][0]
        cases.append(g.case(ops))
    return cases


def random_walk(g, rng, length):
    n, ops = g.init, []
    pw = rng.pick([0.3, 0.5, 0.7])        # preference for the loop thread
    pc = dict(start=rng.pick([1, 2, 4]), stop=rng.pick([1, 2, 4]), destroy=rng.pick([0.05, 0.2, 0.5]))
    for _ in range(length):
        es = g.adj[n]
        if not es:
            break
        loop = [e for e in es if e[0].endswith("loop")]
        ctl = [e for e in es if not e[0].endswith("loop")]
        if loop and (not ctl or rng.random() < pw):
            e = loop[0]
        elif len(ctl) == 1:
            e = ctl[0]
        else:
            ws = [pc[c[0].split()[-1]] for c in ctl]
            x = rng.random() * sum(ws)
            e = ctl[-1]
            for c, wgt in zip(ctl, ws):
                x -= wgt
                if x < 0:
                    e = c
                    break
        ops.append(e[0])
        n = e[1]
    g.settle(n, ops)
    return g.case(ops)


def near_misses(g, witness_ops):
    """the original code's counterexample and variations of it, as far as the model of this tree enables them"""
    cases = []
    n, k = g.walk(witness_ops)
    for cut in sorted(set([k, max(0, k - 1), max(0, k - 3), len(witness_ops) // 2])):
        ops = list(witness_ops[:cut])
        m, _ = g.walk(ops)
        # finish: let the controller complete its call, then the loop thread run 6 steps
        for _ in range(12):
            c = [e for e in g.adj[m] if e[0] == "g ctl"]
            if not c:
                break
            ops.append(c[0][0])
            m = c[0][1]
        for _ in range(6):
            l = [e for e in g.adj[m] if e[0].endswith("loop")]
            if not l:
                break
            ops.append(l[0][0])
            m = l[0][1]
        g.settle(m, ops)
        cases.append(g.case(ops))
    return cases


def dfs_cover(g, calls, limit):
    """depth-first cover of all (state, number of calls made) pairs for one call sequence"""
    seen, cases = set(), []

    def rec(n, k, ops, depth):
        if len(cases) >= limit:
            return
        seen.add((n, k))
        moved = False
        for lab, v, _ in g.adj[n]:
            w = lab.split()
            k2 = k
            if len(w) == 3:
                if k >= len(calls) or w[2] != calls[k]:
                    continue
                k2 = k + 1
            if (v, k2) in seen or depth > 120:
                continue
            moved = True
            rec(v, k2, ops + [lab], depth + 1)
        if not moved and ops:
            o = list(ops)
            g.settle(n, o)
            cases.append(g.case(o))

    sys.setrecursionlimit(10000)
    rec(g.init, 0, [], 0)
    return cases


WITNESS = None


def witness_ops():
    """op labels of the shortest schedule on which the model of the ORIGINAL code violates stop_safety"""
    global WITNESS
    if WITNESS is None:
        g = Graph("orig", "thread")
        best = None
        for u in g.parent:
            for lab, v, out in g.adj[u]:
                if "VIOLATION" in out:
                    p = g.path_to(u) + [lab]
                    if best is None or len(p) < len(best):
                        best = p
        WITNESS = best or []
    return WITNESS


# --------------------------------------------------------------------------- running

def run_chunk(hb, cases, env=None, model=True):
    """-> list of (impl_lines|None if the harness died in that case, model_lines, stderr)"""
    text = core.cases_to_text(cases)
    rc, out, err = core.run_prog(hb, text, timeout=600, env=env)
    io = core.split_output(out)
    mo = {}
    if model:
        rcm, outm, errm = core.sh([core.driver_path(DRIVER)], input=text.encode(), timeout=300)
        if rcm != 0:
            raise RuntimeError("Lean driver failed: " + errm[:1000])
        mo = core.split_output(outm)
    res = []
    for k, c in enumerate(cases):
        il = io.get(k)
        complete = il is not None and len(il) >= len(c)
        res.append((il if (complete or rc == 0) else None, mo.get(k, []), il, err if not complete else ""))
    if rc != 0 and len(cases) > 1:
        # attribute the death to single cases
        res = []
        for c in cases:
            res.extend(run_chunk(hb, [c], env=env, model=model))
    return res


def run_all(hb, cases, workers=8, chunk=40, env=None, model=True):
    chunks = [cases[i:i + chunk] for i in range(0, len(cases), chunk)]
    with concurrent.futures.ThreadPoolExecutor(max_workers=workers) as ex:
        parts = list(ex.map(lambda ch: run_chunk(hb, ch, env=env, model=model), chunks))
    return [r for p in parts for r in p]


def judge(case, impl, model, partial, err):
    """-> None | dict(kind=, detail=)"""
    if impl is None:
        last = (partial or [""])[-1] if partial else ""
        return dict(kind="crash", impl=partial or [], model=model,
                    detail=(core.sanitizer_summary(err) or last or "harness died"), stderr=err[-2500:])
    hits = [l for l in impl if "VIOLATION" in l]
    if hits:
        return dict(kind="oracle", impl=impl, model=model, detail=hits[0])
    if model is not None and impl != model:
        j = next((j for j in range(min(len(impl), len(model))) if impl[j] != model[j]), min(len(impl), len(model)))
        return dict(kind="mismatch", impl=impl, model=model,
                    detail="op %r: impl=%r model=%r" % (case[j] if j < len(case) else None,
                                                        impl[j] if j < len(impl) else None,
                                                        model[j] if j < len(model) else None))
    return None


def nontrivial(case):
    calls = sum(1 for l in case if len(l.split()) == 3 and l.startswith("g ctl"))
    return calls >= 2 and len(case) >= 10


def gen_cases(rng, tier):
    cases = []
    stats = {}
    for launch in ("thread", "task"):
        g = Graph("fixed", launch)
        ec = edge_cover(g, rng)
        nm = near_misses(g, witness_ops())
        n_rw = 400 if tier == "quick" else 40000
        rw = [random_walk(g, rng, rng.randint(8, 70)) for _ in range(n_rw)]
        dc = []
        if tier == "thorough":
            import itertools
            for ln in (1, 2, 3, 4):
                for calls in itertools.product(("start", "stop", "destroy"), repeat=ln):
                    if "destroy" in calls[:-1]:
                        continue   # nothing can be called after the destructor
                    dc.extend(dfs_cover(g, calls, 400))
        stats[launch] = dict(graph_nodes=len(g.info), graph_edges=sum(len(v) for v in g.adj.values()),
                             edge_cover=len(ec), near_miss=len(nm), random_walks=len(rw), dfs=len(dc))
        cases += ec + nm + rw + dc
    return cases, stats


def blind_cases(rng, n_random):
    """search on the real code without model guidance (used when the tie is broken)"""
    cases = []
    prefixes = [[], ["start"], ["start", "stop"], ["start", "stop", "start"]]
    for launch in ("thread", "task"):
        head = ["cfg fixed " + launch, "mode blind"]
        # systematic: run a prefix of calls to completion, park the loop thread after k grants, run one call to
        # completion, resume the loop thread
        for pre in prefixes:
            for call in ("start", "stop", "destroy"):
                for k in range(0, 16):
                    ops = []
                    for p in pre:
                        ops += ["g ctl " + p] + ["g ctl"] * 7 + ["g loop"] * 9
                    ops += ["g loop"] * k + ["g ctl " + call] + ["g ctl"] * 8 + ["g loop"] * 10
                    cases.append(head + ops + ["end"])
        for call in ("start", "stop", "destroy"):
            for pre in prefixes[:3]:
                for jj in range(1, 8):
                    for k in range(1, 12, 2):
                        ops = []
                        for p in pre:
                            ops += ["g ctl " + p] + ["g ctl"] * 7 + ["g loop"] * 9
                        ops += ["g ctl " + call] + ["g ctl"] * jj + ["g loop"] * k + ["g ctl"] * 8 + ["g loop"] * 10
                        cases.append(head + ops + ["end"])
        for _ in range(n_random):
            ops = []
            for _ in range(rng.randint(10, 60)):
                r = rng.random()
                if r < 0.45:
                    ops.append("g loop")
                elif r < 0.8:
                    ops.append("g ctl")
                else:
                    ops.append("g ctl " + rng.pick(["start", "start", "stop", "stop", "stop", "destroy"]))
            cases.append(head + ops + ["end"])
    return cases


def main(tier, seed, replay=None):
    rep = core.Report(ID, tier, seed)
    rep.assumptions = list(ASSUMPTIONS)
    rng = core.Rng(seed)
    cov = rep.coverage

    proofs_ok = core.proof_stage(rep, MODULE, [MODULE, DRIVER], THOROUGH_MODULES)
    proof_failure = getattr(rep, "proof_failure", None)
    driver_ok = os.path.exists(core.driver_path(DRIVER))

    variant, fp, fpdiff = classify_tree()
    cov["fingerprint"] = variant
    found_input = False
    evaluations, validated, transient = 0, 0, 0
    distinct, samples = set(), []
    gstats = {}

    hb, info = build(rep)
    rep.notes.append("harness: " + (info if hb else "build failed"))
    if hb is None:
        rep.violation(dict(kind="harness-build-failed", output=info[-6000:],
                           note="the harness cannot be built against the tree (scheduling points missing or the "
                                "header no longer compiles); correspondence cannot be established"), no_input=True)
        return finish(rep, cov, 0, 0, distinct, samples, gstats)
    if not driver_ok:
        rep.violation(dict(kind="proof-obligation-broken", failure=proof_failure), no_input=True)
        return finish(rep, cov, 0, 0, distinct, samples, gstats)

    def report(case, j, kind_prefix, extra=None):
        nonlocal found_input
        found_input = True
        payload = dict(kind=kind_prefix + j["kind"], ops=case, impl=j.get("impl"), model=j.get("model"),
                       detail=j.get("detail"), stderr=j.get("stderr", ""), fingerprint=variant, explanation=EXPLAIN)
        if extra:
            payload.update(extra)
        rep.violation(payload)

    def confirm(case, j, model=True, env=None):
        """a failure that involves a time-out is re-run alone with generous time-outs (machine load)"""
        nonlocal transient
        txt = " ".join(j.get("impl") or []) + j.get("detail", "")
        if j["kind"] in ("mismatch", "crash") and ("timeout" in txt or "does-not-return" in txt or "never-exits" in txt
                                                    or "FREE-RUN" in txt):
            e = dict(env or {})
            e.update(C03_TIMEOUT_MS="6000", C03_LIVE_MS="15000")
            for _ in range(2):
                (il, ml, part, err), = run_chunk(hb, [case], env=e, model=model)
                j2 = judge(case, il, ml if model else None, part, err)
                if j2 is None:
                    transient += 1
                    return None
                j = j2
        return j

    # ---- replay of a recorded schedule
    if replay:
        rp = json.load(open(replay))
        case = rp.get("ops") or []
        blind = "mode blind" in case
        (il, ml, part, err), = run_chunk(hb, [case], model=not blind)
        j = judge(case, il, None if blind else ml, part, err)
        evaluations = 1
        core.log("[C03] replay: impl=%s" % (il if il is not None else part))
        if j:
            report(case, j, "replay-")
        return finish(rep, cov, evaluations, 0 if j else 1, distinct, samples, gstats)

    corpus = core.load_corpus(ID)

    if variant == "fixed":
        cases, gstats = gen_cases(rng, tier)
        cases = corpus + cases
        t1 = time.time()
        res = run_all(hb, cases)
        reported = 0
        for case, (il, ml, part, err) in zip(cases, res):
            evaluations += 1
            if nontrivial(case):
                distinct.add(core.case_hash(case))
            j = judge(case, il, ml, part, err)
            if j:
                j = confirm(case, j)
            if j is None:
                validated += 1
                continue
            if reported < 2:
                reported += 1
                report(case, j, "correspondence-" if j["kind"] != "oracle" else "property-")
        if cases:
            k = min(len(cases) - 1, len(corpus) + 7)
            samples.append(dict(ops=cases[k][:60], impl=(res[k][0] or [])[:60]))
        core.log("[C03] fixed-code fingerprint: %d schedules, %d validated, %d transient, %.1fs" % (
            len(cases), validated, transient, time.time() - t1))
    elif variant == "orig":
        # the tree is the original code: the model of that code violates stop_safety (theorem
        # stop_safety_fails_on_original); replay the model's counterexample on the real class
        rep.notes.append("fingerprint = original (unfixed) loop body: fixes/C03-stop-race.patch is not applied")
        cases = []
        for launch in ("thread", "task"):
            g = Graph("orig", launch)
            ops = list(witness_ops())
            n, k = g.walk(ops)
            g.settle(n, ops)
            cases.append(g.case(ops))
        res = run_all(hb, cases, workers=1)
        for case, (il, ml, part, err) in zip(cases, res):
            evaluations += 1
            distinct.add(core.case_hash(case))
            j = judge(case, il, ml, part, err)
            if j and j["kind"] != "oracle":
                j = confirm(case, j)
            if j is None:
                validated += 1
                continue
            if j["kind"] == "oracle":
                report(case, j, "property-", dict(
                    theorem="stop_safety_fails_on_original",
                    note="body entered after stop() returned: loop thread read shouldBeRunning==true, stop() then cleared it, "
                         "saw insideLoopBody==false and returned, the loop thread then published insideLoopBody and ran the body"))
                break
            report(case, j, "correspondence-")
        if not found_input:
            rep.violation(dict(kind="unfixed-code-but-witness-not-reproduced", fingerprint=fp,
                               note="the tree carries the original loop body, for which stop_safety is refuted in Lean, "
                                    "but the counterexample schedule did not reproduce on the real class"), no_input=True)
    else:
        # broken tie: the source no longer has the structure the model was written against -> search
        rep.notes.append("fingerprint mismatch: " + fpdiff[:1500])
        cases_g, gstats = gen_cases(rng, "quick")
        found = None
        senv = dict(C03_LIVE_MS="1000", C03_TIMEOUT_MS="300")

        def search(cases, batch, **kw):
            nonlocal evaluations
            for i in range(0, len(cases), batch):
                part_cases = cases[i:i + batch]
                res = run_all(hb, part_cases, model=False, env=senv, **kw)
                for case, (il, ml, part, err) in zip(part_cases, res):
                    evaluations += 1
                    j = judge(case, il, None, part, err)   # the model is not authoritative here: oracle / crash only
                    if j:
                        j = confirm(case, j, model=False)
                    if j:
                        return (case, j)
            return None

        # model schedules first (shortest first: corpus, near misses, edge cover), then blind search
        found = search(corpus + sorted(cases_g, key=len), 96, chunk=6, workers=16)
        if not found:
            found = search(blind_cases(rng, 150 if tier == "quick" else 1500), 192, chunk=6, workers=16)
        if found:
            report(found[0], found[1], "property-" if found[1]["kind"] == "oracle" else "search-",
                   dict(fingerprint_diff=fpdiff[:3000]))
        else:
            rep.violation(dict(kind="tie-broken-fingerprint", fingerprint_diff=fpdiff[:3000], found=fp,
                               note="AsyncLoop.h no longer has the shared-access structure the model was written against; "
                                    "the theorems say nothing about this code. Schedule search on the real code "
                                    "(model schedules + blind search, %d schedules) found no failing schedule" % evaluations),
                          no_input=True)
            found_input = True   # already reported

    if not proofs_ok and not found_input:
        rep.violation(dict(kind="proof-obligation-broken", failure=proof_failure,
                           note="no concrete failing schedule was found on the real code; the property is no longer shown to hold"),
                      no_input=True)
    cov["transient_timeouts_rerun_ok"] = transient
    return finish(rep, cov, evaluations, validated, distinct, samples, gstats)


def finish(rep, cov, evaluations, validated, distinct, samples, gstats):
    cov["evaluations"] = evaluations
    cov["distinct_nontrivial"] = len(distinct)
    cov["rule"] = RULE
    cov["samples"] = samples
    cov["traces_validated_against_impl"] = validated
    cov["schedule_sets"] = gstats
    return rep.finish("proof")


MANIFEST = dict(
    text=("Lean 4 theorems over a finite transition system of AsyncLoop (one transition per shared-memory access of the loop "
          "thread, start(), stop() and the destructor; mutex, condition variable with lost notifies and spurious wake-ups; "
          "both launch methods; the controller may call anything whenever idle): stop_safety and no_body_entry_while_stopped, "
          "no_lost_wakeup / body_runs_after_start (K = 10 loop steps), destroy_terminates, stop_terminates, start_terminates "
          "(weak fairness, rank certificates), destroyed_thread_exited / destroyed_thread_no_later_entry; all by kernel-checked "
          "closed-set certificates, i.e. for executions of any length and every interleaving. The pinned code is refuted "
          "(stop_safety_fails_on_original) and repaired by fixes/C03-stop-race.patch. Tie: structural fingerprint of AsyncLoop.h "
          "plus model-guided forced schedules (every edge of the model's hook-level graph, near misses, random walks) replayed "
          "on the real class through add-only scheduling points and diffed against the compiled model, with an "
          "implementation-side oracle for body-while-stopped, lost wake-up and destructor hang."),
    note=("Trusted: Lean kernel; axioms propext/Quot.sound; sequential consistency and the std::mutex/condition_variable/thread/"
          "shared_ptr/TBB enqueue contracts; the hand-written model is tied to the code by the fingerprint scanner and the "
          "forced-schedule harness (hook placement, generators, canonicalisation); spurious wake-ups are proved about but not "
          "exercised on the real condition variable; liveness is under weak fairness with finitely many spurious wake-ups; "
          "'bounded time' means a bounded number of loop-thread steps."),
    technique="Lean 4 proof (inductive invariant via kernel-checked reachable-set and rank certificates) + model-guided forced-schedule correspondence check")
