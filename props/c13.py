"""C13 — the configured tasking thread count is reported and never exceeded (four backends)."""
import os

ID = "C13"
MODULE = "RkVerif.Props.C13"
DRIVER = "drv_c13"
THOROUGH_MODULES = ["RkVerif.Model.C13", "RkVerif.Lemmas.C13"]

HW = os.cpu_count() or 1
# n ranges over 1..2*hw (property quantifier), capped at 32: with more than 32 scheduler threads the
# internal backend's 256-entry pipes can fill up for ordinary loop sizes, which is the C01 pipe-full
# defect (DESIGN §9), not this property.
NMAX = max(2, min(2 * HW, 32))

_INIT = "rkcommon/tasking/detail/tasking_system_init.cpp"
_T = "rkcommon/tasking/detail/"
# nested regions off is OpenMP's default (a nested region with its own team would multiply the
# thread count); passive waiting only keeps idle team threads from spinning on a shared machine
_OMP_ENV = {"OMP_MAX_ACTIVE_LEVELS": "1", "OMP_DYNAMIC": "FALSE", "OMP_WAIT_POLICY": "PASSIVE"}

HARNESSES = [
    dict(name="c13tbb", backend="tbb", src="harness/c13.cpp", repo_srcs=[_INIT],
         flags=["-DRKCOMMON_TASKING_TBB"], libs=["-ltbb"], driver_args=["tbb", str(HW)]),
    dict(name="c13omp", backend="omp", src="harness/c13.cpp", repo_srcs=[_INIT],
         flags=["-fopenmp", "-DRKCOMMON_TASKING_OMP"], driver_args=["omp", str(HW)], env=_OMP_ENV),
    dict(name="c13int", backend="internal", src="harness/c13.cpp",
         repo_srcs=[_INIT, _T + "TaskSys.cpp", _T + "enkiTS/TaskScheduler.cpp"],
         flags=["-DRKCOMMON_TASKING_INTERNAL"], driver_args=["internal", str(HW)]),
    dict(name="c13dbg", backend="debug", src="harness/c13.cpp", repo_srcs=[_INIT],
         flags=[], driver_args=["debug", str(HW)]),
]
# the same harness without sanitizers for two backends: ASan's quarantine keeps freed blocks from being handed out again, so
# anything keyed on an address that the allocator reuses (the tasking handle is re-allocated on every re-initialisation)
# behaves differently there
HARNESSES += [
    dict(name="c13tbb_plain", backend="tbb", src="harness/c13.cpp", repo_srcs=[_INIT], san=[],
         flags=["-DRKCOMMON_TASKING_TBB"], libs=["-ltbb"], driver_args=["tbb", str(HW)]),
    dict(name="c13dbg_plain", backend="debug", src="harness/c13.cpp", repo_srcs=[_INIT], san=[],
         flags=[], driver_args=["debug", str(HW)]),
]
for _h in HARNESSES:
    _h["timeout"] = 1800  # whole batch; a single case is limited to 20 s by the harness itself

RULE = ("per backend (TBB, OpenMP, Internal/enkiTS, Debug; one sanitized binary each, a fresh process per case): "
        "random histories of initTaskingSystem(n) with n in 1..min(2*hw,32) (biased to 1,2,3,hw-1,hw,hw+1,2*hw) and "
        "n <= 0 (0,-1,-7), as first and as later initialisation, one- and two-argument form, interleaved with "
        "numTaskingThreads() (also before any initialisation) and parallel_for loops (sizes 0,1,2,n-1,n,n+1,2n,4n, "
        "random <= 900, 4096..10000; body sleeps 0..3000 us; nested loops up to 40x40) whose bodies count the distinct "
        "threads simultaneously inside; 20% of the cases end with the same query / loop issued from a second thread (tnum/tpfor); observed: the reported number (predicate >0 after n<=0), measured maximum <= "
        "limit, every index run exactly once. A case is non-trivial when it re-initialises (>= 2 init) or starts with "
        "n <= 0, and runs a loop with more iterations than the limit and a sleeping body after an init; "
        "distinct = distinct op sequences")
ASSUMPTIONS = [
    "tbb::global_control(max_allowed_parallelism): active value = minimum of the live controls (hardware default when none), "
    "at most that many threads execute tasks (contract; observed on every run, not proved); n <= 256 (TBB's hard worker limit)",
    "OpenMP: omp_get_max_threads() is the calling thread's nthreads-var = last omp_set_num_threads (default > 0), a team "
    "is at most that large, nested regions are inactive (OMP_MAX_ACTIVE_LEVELS=1, the default) (contract; observed, not proved)",
    "the hardware-derived default (std::thread::hardware_concurrency / TBB / OpenMP) is > 0 (hypothesis hw > 0 of default_positive)",
    "initTaskingSystem and parallel_for are called from one thread that the scheduler did not create "
    "(internal_concurrency_bound has the number of such threads as a parameter: bound = n - 1 + externals)",
    "std::thread / pthread create exactly the threads requested; sequential consistency for the scheduler's flags",
]
EXPLAIN = ("numTaskingThreads() or the measured number of threads simultaneously inside parallel_for bodies of the real "
           "code differs from the Lean model for which num_before_init, num_after_init, reinit_replaces, "
           "default_positive, pfor_within_limit and internal_concurrency_bound are proved")


def _n_pos(rng):
    r = rng.random()
    if r < 0.45:
        return rng.pick([1, 2, 3, 4])
    if r < 0.75:
        return max(1, min(NMAX, rng.pick([HW - 1, HW, HW + 1, 2 * HW, NMAX, NMAX - 1])))
    return rng.randint(1, NMAX)


def _size(rng, n, big_ok=True):
    r = rng.random()
    if r < 0.5:
        return max(0, rng.pick([0, 1, 2, n - 1, n, n + 1, 2 * n, 4 * n, 4 * n + 3]))
    if r < 0.9 or not big_ok:
        return rng.randint(0, 900)
    return rng.pick([4096, 5000, 10000])


def _loop(rng, n):
    """one loop op; n = number of threads expected to be available (for sizing only)"""
    if rng.chance(0.2):
        a = rng.pick([1, 2, 3, n, n + 1, 7, 16, 40])
        b = rng.pick([1, 2, 5, n, n + 1, 16, 40])
        a, b = min(a, 40), min(b, 40)
        us = rng.pick([0, 50, 300, 1000]) if a * b <= 4 * 64 else rng.pick([0, 50])
        return "nest %d %d %d" % (a, b, us)
    size = _size(rng, n)
    # keep one loop below ~60 ms: size*us/threads
    cands = [u for u in (0, 50, 200, 1000, 3000) if size * u <= 60000 * max(1, min(n, size))]
    us = rng.pick(cands[-3:]) if rng.chance(0.7) else rng.pick(cands)
    return "pfor %d %d" % (size, us)


def gen_cases(rng, tier, h):
    ncases = 60 if tier == "quick" else 1200
    cases = []
    for _ in range(ncases):
        c = []
        # before initialisation
        if rng.chance(0.6):
            c.append("num")
        if rng.chance(0.15):
            c.append("pfor %d %d" % (rng.pick([0, 1, 5, 64]), rng.pick([0, 100])))
            c.append("num")
        ninit = rng.pick([1, 2, 2, 3, 3, 4, 6])
        # sparse histories: runs of re-initialisations that are not queried in between (a stale answer kept from an
        # earlier query shows only there)
        sparse = rng.chance(0.3)
        if sparse:
            ninit = rng.pick([3, 4, 5, 6, 8])
        for k in range(ninit):
            if rng.chance(0.3 if k == 0 else 0.12):
                n = rng.pick([0, -1, -1, -7])
            else:
                n = _n_pos(rng)
            c.append("init %d" % n if rng.chance(0.8) else "init %d %d" % (n, rng.randrange(2)))
            if rng.chance(0.3 if sparse else 0.85) or (sparse and k == ninit - 1):
                c.append("num")
            eff = 1 if h["backend"] == "debug" else (n if n > 0 else HW)  # only for sizing the loops
            for _ in range(rng.pick([0, 0, 0, 1]) if sparse else rng.pick([0, 1, 1, 2, 3])):
                c.append(_loop(rng, eff))
            if rng.chance(0.3) and not sparse:
                c.append("num")
        # the same two observations from a thread other than the initialising one; always last in
        # a case so that the known OpenMP finding (classify) cannot mask anything after it
        if rng.chance(0.2):
            last_n = int([l for l in c if l.startswith("init")][-1].split()[1])
            eff = 1 if h["backend"] == "debug" else (last_n if last_n > 0 else HW)
            if rng.chance(0.7):
                c.append("tnum")
            if rng.chance(0.7):
                size = rng.pick([eff + 1, 2 * eff, 4 * eff, 64])
                us = rng.pick([200, 1000]) if size * 1000 <= 60000 * eff else 200
                if h["backend"] == "debug":
                    size, us = min(size, 16), 200
                c.append("tpfor %d %d" % (size, us))
        cases.append(c)
    return cases


KF_OMP_THREAD = "C13-omp-limit-per-thread"


def classify(fail, case):
    """Known finding: under the OpenMP backend the limit is the calling thread's nthreads-var, so on a
    thread other than the one that called initTaskingSystem numTaskingThreads() reports the default and
    parallel_for uses a default-sized team. Exactly that: backend omp, the first differing observation is
    a tnum/tpfor op (they are the last ops of a case), the real code answered (no crash)."""
    if fail.get("kind") != "mismatch":
        return None
    j = fail.get("first_diff")
    if j is None or j >= len(case) or j >= len(fail["impl"]) or j >= len(fail["model"]):
        return None
    op = case[j].split()[0]
    impl, model = fail["impl"][j], fail["model"][j]
    if op not in ("tnum", "tpfor") or not impl.startswith("omp ") or not model.startswith("omp "):
        return None
    if any(l.split()[0] not in ("tnum", "tpfor") for l in case[j:]):
        return None
    if op == "tnum" and (impl == "omp pos" or impl[4:].isdigit()) and model[4:].isdigit():
        ok = True
    elif op == "tpfor" and impl == "omp le=0 all=1" and model == "omp le=1 all=1":
        ok = True
    else:
        return None
    return (KF_OMP_THREAD,
            "%s OpenMP backend: initTaskingSystem(n) only sets the calling thread's nthreads-var; on another thread "
            "numTaskingThreads() reports the default and parallel_for runs a default-sized team "
            "(e.g. init 3 on the main thread; from a std::thread: numTaskingThreads() = hardware count, %s)"
            % (KF_OMP_THREAD, "op %r: real %r, expected %r" % (case[j], impl, model)))


def nontrivial(case):
    inits = [l for l in case if l.startswith("init")]
    if not inits:
        return False
    first_le0 = int(inits[0].split()[1]) <= 0
    if len(inits) < 2 and not first_le0:
        return False
    limit = None
    for l in case:
        w = l.split()
        if w[0] == "init":
            limit = int(w[1]) if int(w[1]) > 0 else HW
        elif limit is not None and w[0] == "pfor" and int(w[1]) > limit and int(w[2]) > 0:
            return True
        elif limit is not None and w[0] == "nest" and int(w[1]) * int(w[2]) > limit and int(w[3]) > 0:
            return True
    return False


MANIFEST = dict(
    text=("Lean 4 theorems over an executable model of initTaskingSystem/numTaskingThreads for the four backends and of the "
          "internal scheduler's thread set: 0 before any initialisation for every history without init; after init n>0 the "
          "reported value is n (1 for Debug) after every history, hence re-initialisation replaces the setting, including the "
          "window in which the old and the new tbb::global_control coexist (effective value = minimum, then the new n); a "
          "first or later init with n<=0 yields a positive value when the hardware default is positive; the number of "
          "threads a loop can use is within the configured limit for every history; in the internal scheduler (n-1 created "
          "workers plus the calling thread, nested waits run on the waiting thread, any interleaving) the number of threads "
          "simultaneously executing bodies never exceeds n (inductive invariant). The model is tied to the code by running the "
          "same random init/re-init/loop histories through the real library built for each of the four backends "
          "(ASan/UBSan, fresh process per case) and the compiled model, comparing the reported count and the predicate "
          "'measured simultaneous threads <= limit'. PARTIAL: that TBB and OpenMP honour the limit they are given is a "
          "contract that is observed on every run, not proved. Known finding C13-omp-limit-per-thread: under OpenMP the "
          "limit only reaches the thread that called initTaskingSystem (witness proved in Lean, reproduced on the real code)."),
    note=("Trusted: Lean kernel; axioms propext/Classical.choice/Quot.sound; the hand-written model is tied to the code only by "
          "the correspondence harness; tbb::global_control and OpenMP nthreads-var semantics are contracts (observed); the "
          "internal scheduler is modelled abstractly (threads, queued sub-tasks, activations), its pipes and atomics are not; "
          "single calling thread; the concurrency measurement can only refute, a schedule that never overlaps proves nothing."),
    technique="Lean 4 proof (induction over init/loop histories, inductive invariant over scheduler interleavings) + differential "
              "correspondence check model vs real code on four backends with measured concurrency")
