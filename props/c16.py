"""C16 — readXML: total, memory-safe, faithful on the documented subset (model: lean/RkVerif/Model/C16.lean)."""
import os
import sys

from vlib import core

sys.setrecursionlimit(max(sys.getrecursionlimit(), 20000))  # Pair.compare recurses once per crashing case

ID = "C16"
MODULE = "RkVerif.Props.C16"
DRIVER = "drv_c16"
THOROUGH_MODULES = ["RkVerif.Model.C16", "RkVerif.Lemmas.C16", "RkVerif.Lemmas.C16RT", "RkVerif.Lemmas.C16Node", "RkVerif.Lemmas.C16Doc"]

_SRCS = ["rkcommon/xml/XML.cpp", "rkcommon/os/FileName.cpp", "rkcommon/common.cpp", "rkcommon/os/library.cpp"]
_TMP = os.path.join(core.CACHE, "c16tmp")
HARNESSES = [dict(name="c16", src="harness/c16.cpp", repo_srcs=_SRCS, args=[_TMP], mode=m, libs=["-ldl"], timeout=900)
             for m in ("valid", "trunc", "mut", "rand")]

RULE = ("four generators, all bytes given in hex to both sides: (valid) documents printed from random trees of depth <= 4 "
        "(identifier names from a small pool so open/close mismatches are one mutation away, 0-3 properties with both quote "
        "styles and backslash pairs, duplicates occasionally, self-closing and open/close forms, one text run anywhere among the "
        "children, comments and whitespace wherever the reader allows them, optional <?xml ...?> header) whose expected tree is "
        "also compared with the model's answer; (trunc) every prefix of such documents; (mut) 1-3 byte/slice mutations "
        "(delete/insert/replace/duplicate with characters from <>/=\"'!-?\\ space NUL \\v high bytes letters); (rand) short random "
        "strings over that alphabet and random sequences of XML tokens. Non-trivial = the case contains an input of >= 6 bytes "
        "with a '<'; distinct = distinct op sequences")
ASSUMPTIONS = [
    "file I/O is a byte list: fopen/fseek/ftell/fread deliver the file's bytes and its length (regular files under .cache)",
    "isalpha/isdigit/isspace are those of the \"C\" locale on all 256 byte values (glibc tables; bytes >= 0x80 are in no class)",
    "std::string, std::map, std::vector meet their specifications; allocation does not fail",
    "nesting depth is bounded (the statement's own restriction): parseNode recursion is not checked against the C++ stack size",
]
EXPLAIN = ("readXML on this file differs from the Lean model of XML.cpp for which xml_in_bounds, xml_total and xml_error_kind "
           "are proved for every byte string (a crash here is a sanitizer report, signal or hang of the real parser where "
           "the model returns a document or runtime_error), or the parsed tree differs from the tree the document was printed from")

NAMES = [b"a", b"b", b"ab", b"_x1", b"n.m", b"A9", b"node", b"x_"]
KEYS = [b"k", b"id", b"v", b"a", b"_p.q", b"K2"]
WS = [b" ", b"\n", b"\t", b"\r", b"  ", b" \n "]
VALCH = [b"x", b"y", b"1", b" ", b"<", b">", b"/", b"=", b"!", b"-", b"?", b"&", b"\xc3\xa9", b"\xff", b"\x80", b"\n", b"\x0b"]
TXTCH = [b"t", b"u", b"0", b" ", b">", b"/", b"=", b"\"", b"'", b"!", b"-", b"?", b"\\", b"\xe2\x82\xac", b"\xff", b"\n", b"\x0b", b"\t"]
CMTCH = [b"c", b" ", b"-", b"--", b">", b"<", b"!", b"->", b"<!--", b"\"", b"'", b"\xfe", b"\n", b"/"]
MUTCH = [bytes([c]) for c in b"<>/=\"'!-? \\\x00\x0b\xff\x80ab_.1xml\n\t"]
TOKENS = [b"<", b">", b"/>", b"</", b"<a", b"<b", b"</a>", b"</b>", b"a", b"b", b"=", b"\"", b"'", b"\\", b" ", b"\n",
          b"<!--", b"-->", b"<!", b"--", b"-", b"<?xml", b"?>", b"?", b"version", b"x", b"\x00", b"\x0b", b"\xff", b"a=\"", b"b='", b"1", b".", b"_"]


def hx(b):
    return b.hex() if b else "-"


def _ws(rng, p=0.5):
    return rng.pick(WS) if rng.chance(p) else b""


def _ws1(rng):
    return rng.pick(WS)


_LONG = [15, 16, 17, 31, 32, 33, 63, 64, 65, 127, 128, 129, 255, 256, 257, 1023, 1024, 1025, 4096]


def _long(rng, alphabet=b"abcdefgh0123456789"):
    """names, values and contents whose length sits on or next to a power of two (fixed-size buffers, growth steps)"""
    n = rng.pick(_LONG)
    return bytes(alphabet[rng.randrange(len(alphabet))] for _ in range(n))


def _value(rng, q):
    if rng.chance(0.04):
        return _long(rng)
    out = []
    for _ in range(rng.randrange(0, 6)):
        r = rng.random()
        if r < 0.12:
            out.append(b"\\" + rng.pick([q, b"\\", b"n", b"\xff"]))     # backslash pair, kept verbatim
        elif r < 0.22:
            out.append(b"'" if q == b'"' else b'"')                       # the other quote
        else:
            out.append(rng.pick(VALCH))
    return b"".join(out)


def _text(rng):
    if rng.chance(0.04):
        return b"t" + _long(rng)[1:]
    first = rng.pick([b"t", b"T", b"7", b">", b"\"", b"\\", b"\xc2\xb5", b"-", b"!", b"/"])
    mid = b"".join(rng.pick(TXTCH) for _ in range(rng.randrange(0, 6)))
    last = rng.pick([b"", b"", b"z", b">", b"'", b"\xff", b"\\"])
    t = first + mid + last
    return t.rstrip(b" \t\n\r\x0b\x0c")  # first is never a space, so non-empty


def _comment(rng):
    while True:
        pre = b"--" if rng.chance(0.9) else b""
        body = pre + b"".join(rng.pick(CMTCH) for _ in range(rng.randrange(0, 6)))
        # "<!" + body + "-->": the scanner must not see "-->" earlier (also across the seams)
        if b"\x00" not in body and (body + b"-->").find(b"-->") == len(body):
            return b"<!" + body + b"-->"


def _misc(rng):
    out = []
    for _ in range(rng.randrange(0, 3)):
        out.append(_ws1(rng) if rng.chance(0.6) else _comment(rng))
    return b"".join(out)


def gen_node(rng, depth, maxdepth):
    """-> (bytes, tree) with tree = (name, {key: value}, content, [children])"""
    name = rng.pick(NAMES) if not rng.chance(0.03) else b"n" + _long(rng, b"abcXYZ_019")[1:]
    props = {}
    s = b"<" + name
    nprops = rng.pick([0, 0, 1, 1, 2, 3])
    sep = _ws(rng, 0.3) if nprops == 0 else _ws1(rng)
    s += sep
    for i in range(nprops):
        k = rng.pick(KEYS) if not rng.chance(0.03) else b"k" + _long(rng, b"abcXYZ_019")[1:]
        q = b'"' if rng.chance(0.5) else b"'"
        v = _value(rng, q)
        props[k] = v                                  # duplicates: the last one wins (std::map operator[])
        s += k + _ws(rng, 0.25) + b"=" + _ws(rng, 0.25) + q + v + q + _ws(rng, 0.6 if i + 1 < nprops else 0.4)
        # (no whitespace between two properties is accepted by the reader too: "a='1'b='2'")
    if rng.chance(0.35):
        return s + b"/>", (name, props, b"", [])
    s += b">"
    children = []
    content = b""
    nchild = 0 if depth >= maxdepth else rng.pick([0, 1, 1, 2, 3])
    slots = nchild + 1
    textslot = rng.randrange(slots) if rng.chance(0.5) else -1
    for i in range(slots):
        s += _misc(rng)
        if i == textslot:
            content = _text(rng)
            s += content + _misc(rng)
        if i < nchild:
            cs, ct = gen_node(rng, depth + 1, maxdepth)
            s += cs
            children.append(ct)
    s += _misc(rng)
    s += b"</" + name + b">"
    return s, (name, props, content, children)


def gen_doc(rng, maxdepth=4):
    s = b""
    if rng.chance(0.4):
        s += rng.pick([b"<?xml?>", b"<?xml version=\"1.0\"?>", b"<?xml version='1.0' encoding=\"UTF-8\" ?>",
                       b"<?xml \n?>", b"<?xml\tversion = '1.0'standalone=\"yes\"?>"])
    trees = []
    s += _misc(rng)
    for _ in range(rng.pick([0, 1, 1, 1, 1, 2, 3])):
        ns, t = gen_node(rng, 1, maxdepth)
        s += ns + _misc(rng)
        trees.append(t)
    return s, trees


def canon_node(t):
    name, props, content, children = t
    return ("N" + name.hex() + "{" + ",".join(k.hex() + "=" + props[k].hex() for k in sorted(props)) + "}C" +
            content.hex() + "[" + ";".join(canon_node(c) for c in children) + "]")


def canon_doc(trees):
    return "ok[" + ";".join(canon_node(t) for t in trees) + "]"


def mutate(rng, b):
    b = bytearray(b)
    for _ in range(rng.pick([1, 1, 2, 3])):
        r = rng.random()
        i = rng.randrange(len(b) + 1)
        if r < 0.25 and b:
            del b[min(i, len(b) - 1)]
        elif r < 0.55:
            b[i:i] = rng.pick(MUTCH)
        elif r < 0.85 and b:
            j = min(i, len(b) - 1)
            b[j:j + 1] = rng.pick(MUTCH)
        elif r < 0.93 and b:
            j = rng.randrange(len(b) + 1)
            lo, hi = min(i, j), max(i, j)
            b[lo:lo] = b[lo:hi][:12]            # duplicate a slice
        elif b:
            j = min(len(b), i + rng.randrange(1, 8))
            del b[i:j]                           # delete a slice
    return bytes(b)


def gen_cases(rng, tier, h):
    mode = h["mode"]
    quick = tier == "quick"
    cases = []
    if mode == "valid":
        for _ in range(150 if quick else 2500):
            c = []
            for _ in range(4):
                s, trees = gen_doc(rng, 4 if quick else 6)
                c.append("gen %s %s" % (hx(s), canon_doc(trees)))
            cases.append(c)
    elif mode == "trunc":
        for _ in range(70 if quick else 900):
            s, _t = gen_doc(rng, 3)
            s = s[:160]
            cases.append(["parse " + hx(s[:i]) for i in range(len(s) + 1)])
    elif mode == "mut":
        for _ in range(140 if quick else 2500):
            s, _t = gen_doc(rng, 3)
            cases.append(["parse " + hx(mutate(rng, s)) for _ in range(20)])
    else:
        for _ in range(120 if quick else 2000):
            c = []
            for _ in range(15):
                c.append("parse " + hx(b"".join(rng.pick(MUTCH) for _ in range(rng.randrange(0, 12)))))
            for _ in range(25):
                c.append("parse " + hx(b"".join(rng.pick(TOKENS) for _ in range(rng.randrange(1, 14)))))
            cases.append(c)
    return cases


def nontrivial(case):
    for l in case:
        w = l.split()
        if len(w) >= 2 and len(w[1]) >= 12 and "3c" in [w[1][i:i + 2] for i in range(0, len(w[1]), 2)]:
            return True
    return False


MANIFEST = dict(
    text=("Lean 4 theorems over an executable model of XML.cpp (every helper mirrored statement by statement over a byte array "
          "with an explicit terminator; reads beyond it are a distinguished error): for EVERY byte string the parser never reads "
          "outside the buffer, terminates within fuel len+2 and fails only with runtime_error (induction over fuel with a cursor "
          "measure); the pre-fix parseString is shown to run past the terminator on concrete witnesses; xml_roundtrip: parse(print t) = t "
          "for EVERY well-formed source tree of the documented subset (identifier names, properties in both quote styles incl. "
          "backslash pairs, whitespace wherever accepted, self-closing and open/close elements of any depth/fan-out, one text run "
          "anywhere among the children, comments, optional header), by mutual structural induction. The model is tied to the code by running generated documents, "
          "every truncation, byte mutations and random token strings through readXML under ASan/UBSan and through the compiled "
          "model, diffing tree / error class; generated documents are also compared with the generating tree."),
    note=("Trusted: Lean kernel; axioms propext/Classical.choice/Quot.sound; the hand-written model is tied to XML.cpp only by the "
          "correspondence harness (generators + canonicalisation) and the g++/sanitizer runtimes; file I/O as a byte list; "
          "\"C\"-locale ctype tables; recursion depth vs. stack size is excluded by the statement (nesting depth bounded)."),
    technique="Lean 4 proof (fuel/cursor-measure induction over all byte strings, round trip on the printed subset) + differential correspondence check model vs real code under ASan/UBSan")
