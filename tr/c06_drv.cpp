// Driver translation unit for C06 (tie T): wrappers over LinearSpace.h / AffineSpace.h / Quaternion.h.
#include "rkcommon/math/LinearSpace.h"
#include "rkcommon/math/AffineSpace.h"
#include "rkcommon/math/Quaternion.h"
namespace rkcommon { namespace math { namespace vdrv {
// ---- LinearSpace2
float l2_det(const linear2f &m) { return m.det(); }
linear2f l2_adjoint(const linear2f &m) { return m.adjoint(); }
linear2f l2_inverse(const linear2f &m) { return m.inverse(); }
linear2f l2_rcp(const linear2f &m) { return rcp(m); }
linear2f l2_transposed(const linear2f &m) { return m.transposed(); }
vec2f l2_row0(const linear2f &m) { return m.row0(); }
vec2f l2_row1(const linear2f &m) { return m.row1(); }
linear2f l2_mul(const linear2f &a, const linear2f &b) { return a * b; }
vec2f l2_apply(const linear2f &a, const vec2f &v) { return a * v; }
linear2f l2_add(const linear2f &a, const linear2f &b) { return a + b; }
linear2f l2_sub(const linear2f &a, const linear2f &b) { return a - b; }
linear2f l2_neg(const linear2f &a) { return -a; }
linear2f l2_smul(float s, const linear2f &a) { return s * a; }
linear2f l2_scale(const vec2f &s) { return linear2f::scale(s); }
linear2f l2_rotate(float r) { return linear2f::rotate(r); }
linear2f l2_one() { return linear2f(one); }
// ---- LinearSpace3
float l3_det(const linear3f &m) { return m.det(); }
linear3f l3_adjoint(const linear3f &m) { return m.adjoint(); }
linear3f l3_inverse(const linear3f &m) { return m.inverse(); }
linear3f l3_rcp(const linear3f &m) { return rcp(m); }
linear3f l3_transposed(const linear3f &m) { return m.transposed(); }
vec3f l3_row0(const linear3f &m) { return m.row0(); }
vec3f l3_row1(const linear3f &m) { return m.row1(); }
vec3f l3_row2(const linear3f &m) { return m.row2(); }
linear3f l3_mul(const linear3f &a, const linear3f &b) { return a * b; }
vec3f l3_apply(const linear3f &a, const vec3f &v) { return a * v; }
linear3f l3_add(const linear3f &a, const linear3f &b) { return a + b; }
linear3f l3_sub(const linear3f &a, const linear3f &b) { return a - b; }
linear3f l3_neg(const linear3f &a) { return -a; }
linear3f l3_smul(float s, const linear3f &a) { return s * a; }
linear3f l3_div(const linear3f &a, float s) { return a / s; }
linear3f l3_scale(const vec3f &s) { return linear3f::scale(s); }
linear3f l3_rotate(const vec3f &u, float r) { return linear3f::rotate(u, r); }
linear3f l3_one() { return linear3f(one); }
linear3f l3_from_quat(const quaternionf &q) { return linear3f(q); }
linear3f l3_frame(const vec3f &n) { return frame(n); }
linear3f l3_frame_up(const vec3f &n, const vec3f &up) { return frame(n, up); }
vec3f l3_xfmPoint(const linear3f &m, const vec3f &p) { return xfmPoint(m, p); }
vec3f l3_xfmVector(const linear3f &m, const vec3f &p) { return xfmVector(m, p); }
vec3f l3_xfmNormal(const linear3f &m, const vec3f &p) { return xfmNormal(m, p); }
// ---- AffineSpace3
affine3f a3_rcp(const affine3f &a) { return rcp(a); }
affine3f a3_mul(const affine3f &a, const affine3f &b) { return a * b; }
affine3f a3_div(const affine3f &a, const affine3f &b) { return a / b; }
affine3f a3_add(const affine3f &a, const affine3f &b) { return a + b; }
affine3f a3_sub(const affine3f &a, const affine3f &b) { return a - b; }
affine3f a3_neg(const affine3f &a) { return -a; }
affine3f a3_smul(float s, const affine3f &a) { return s * a; }
vec3f a3_xfmPoint(const affine3f &m, const vec3f &p) { return xfmPoint(m, p); }
vec3f a3_xfmVector(const affine3f &m, const vec3f &p) { return xfmVector(m, p); }
vec3f a3_xfmNormal(const affine3f &m, const vec3f &p) { return xfmNormal(m, p); }
affine3f a3_scale(const vec3f &s) { return affine3f::scale(s); }
affine3f a3_translate(const vec3f &p) { return affine3f::translate(p); }
affine3f a3_rotate(const vec3f &u, float r) { return affine3f::rotate(u, r); }
affine3f a3_rotate_about(const vec3f &p, const vec3f &u, float r) { return affine3f::rotate(p, u, r); }
affine3f a3_rotate_quat(const quaternionf &q) { return affine3f::rotate(q); }
affine3f a3_lookat(const vec3f &eye, const vec3f &point, const vec3f &up) { return affine3f::lookat(eye, point, up); }
affine3f a3_one() { return affine3f(one); }
affine3f a3_from_linear(const linear3f &l) { return affine3f(l); }
// ---- AffineSpace2
affine2f a2_rcp(const affine2f &a) { return rcp(a); }
affine2f a2_mul(const affine2f &a, const affine2f &b) { return a * b; }
affine2f a2_rotate(float r) { return affine2f::rotate(r); }
affine2f a2_translate(const vec2f &p) { return affine2f::translate(p); }
affine2f a2_scale(const vec2f &s) { return affine2f::scale(s); }
affine2f a2_rotate_about(const vec2f &p, float r) { return affine2f::rotate(p, r); }
// ---- Quaternion
quaternionf q_mul(const quaternionf &a, const quaternionf &b) { return a * b; }
quaternionf q_conj(const quaternionf &a) { return conj(a); }
quaternionf q_rcp(const quaternionf &a) { return rcp(a); }
quaternionf q_normalize(const quaternionf &a) { return normalize(a); }
float q_dot(const quaternionf &a, const quaternionf &b) { return dot(a, b); }
float q_abs(const quaternionf &a) { return abs(a); }
quaternionf q_add(const quaternionf &a, const quaternionf &b) { return a + b; }
quaternionf q_sub(const quaternionf &a, const quaternionf &b) { return a - b; }
quaternionf q_neg(const quaternionf &a) { return -a; }
quaternionf q_smul(float s, const quaternionf &a) { return s * a; }
quaternionf q_muls(const quaternionf &a, float s) { return a * s; }
vec3f q_rotate_vec(const quaternionf &a, const vec3f &v) { return a * v; }
vec3f q_xfmPoint(const quaternionf &a, const vec3f &v) { return xfmPoint(a, v); }
vec3f q_v(const quaternionf &a) { return a.v(); }
quaternionf q_rotate(const vec3f &u, float r) { return quaternionf::rotate(u, r); }
quaternionf q_from_matrix(const vec3f &vx, const vec3f &vy, const vec3f &vz) { return quaternionf(vx, vy, vz); }
quaternionf q_from_ypr(float yaw, float pitch, float roll) { return quaternionf(yaw, pitch, roll); }
quaternionf q_slerp(float f, const quaternionf &a, const quaternionf &b) { return slerp(f, a, b); }
bool q_eq(const quaternionf &a, const quaternionf &b) { return a == b; }
// ---- compound assignments (the object assigned to is passed by value and returned)
linear2f l2_imul(linear2f a, const linear2f &b) { a *= b; return a; }
linear2f l2_idiv(linear2f a, const linear2f &b) { a /= b; return a; }
linear3f l3_imul(linear3f a, const linear3f &b) { a *= b; return a; }
linear3f l3_idiv(linear3f a, const linear3f &b) { a /= b; return a; }
affine3f a3_imul(affine3f a, const affine3f &b) { a *= b; return a; }
affine3f a3_idiv(affine3f a, const affine3f &b) { a /= b; return a; }
quaternionf q_imul(quaternionf a, const quaternionf &b) { a *= b; return a; }
quaternionf q_idiv(quaternionf a, const quaternionf &b) { a /= b; return a; }
quaternionf q_iadd(quaternionf a, const quaternionf &b) { a += b; return a; }
quaternionf q_isub(quaternionf a, const quaternionf &b) { a -= b; return a; }
quaternionf q_imuls(quaternionf a, float b) { a *= b; return a; }
quaternionf q_idivs(quaternionf a, float b) { a /= b; return a; }
quaternionf q_iadds(quaternionf a, float b) { a += b; return a; }
quaternionf q_isubs(quaternionf a, float b) { a -= b; return a; }
}}}
