// Driver translation unit for C05 (tie T): one wrapper per covered entity of range.h / box.h /
// xfmBounds. tools/cpp2lean.py turns each wrapper, and everything it reaches in rkcommon, into a
// Lean definition (lean/RkVerif/Gen/C05.lean). The same wrappers are compiled into harness/c05.cpp.
#include "rkcommon/math/box.h"
#include "rkcommon/math/AffineSpace.h"
namespace rkcommon { namespace math { namespace vdrv {
// range_t<float>
bool  r1_contains(const range1f &r, float t) { return r.contains(t); }
range1f r1_extend(range1f r, float t) { r.extend(t); return r; }
range1f r1_extend_r(range1f r, const range1f &o) { r.extend(o); return r; }
float r1_clamp(const range1f &r, float t) { return r.clamp(t); }
bool  r1_empty(const range1f &r) { return r.empty(); }
range1f r1_default() { return range1f(); }
range1f r1_emptyctor() { return range1f(empty); }
float r1_size(const range1f &r) { return r.size(); }
float r1_center(const range1f &r) { return r.center(); }
range1f r1_scale(const range1f &r, float s) { return r * s; }
range1f r1_scale_l(float s, const range1f &r) { return s * r; }
range1f r1_translate(const range1f &r, float s) { return r + s; }
range1f r1_translate_l(float s, const range1f &r) { return s + r; }
bool r1_eq(const range1f &a, const range1f &b) { return a == b; }
bool r1_ne(const range1f &a, const range1f &b) { return a != b; }
// box2f
bool  b2_contains(const box2f &b, const vec2f &p) { return b.contains(p); }
box2f b2_extend(box2f b, const vec2f &p) { b.extend(p); return b; }
box2f b2_extend_b(box2f b, const box2f &o) { b.extend(o); return b; }
vec2f b2_clamp(const box2f &b, const vec2f &p) { return b.clamp(p); }
bool  b2_empty(const box2f &b) { return b.empty(); }
box2f b2_default() { return box2f(); }
box2f b2_inter(const box2f &a, const box2f &b) { return intersectionOf(a, b); }
bool  b2_disjoint(const box2f &a, const box2f &b) { return disjoint(a, b); }
bool  b2_touching(const box2f &a, const box2f &b) { return touchingOrOverlapping(a, b); }
vec2f b2_size(const box2f &b) { return b.size(); }
vec2f b2_center(const box2f &b) { return b.center(); }
vec2f b2_center_free(const box2f &b) { return center(b); }
float b2_area(const box2f &b) { return area(b); }
// box3f
bool  b3_contains(const box3f &b, const vec3f &p) { return b.contains(p); }
box3f b3_extend(box3f b, const vec3f &p) { b.extend(p); return b; }
box3f b3_extend_b(box3f b, const box3f &o) { b.extend(o); return b; }
vec3f b3_clamp(const box3f &b, const vec3f &p) { return b.clamp(p); }
bool  b3_empty(const box3f &b) { return b.empty(); }
box3f b3_default() { return box3f(); }
box3f b3_inter(const box3f &a, const box3f &b) { return intersectionOf(a, b); }
bool  b3_disjoint(const box3f &a, const box3f &b) { return disjoint(a, b); }
bool  b3_touching(const box3f &a, const box3f &b) { return touchingOrOverlapping(a, b); }
vec3f b3_size(const box3f &b) { return b.size(); }
vec3f b3_center(const box3f &b) { return b.center(); }
float b3_area(const box3f &b) { return area(b); }
float b3_volume(const box3f &b) { return volume(b); }
box3f b3_scale(const box3f &b, const vec3f &s) { return b * s; }
box3f b3_translate(const box3f &b, const vec3f &s) { return b + s; }
bool  b3_eq(const box3f &a, const box3f &b) { return a == b; }
// box3fa (padded)
bool  b3a_contains(const box3fa &b, const vec3fa &p) { return b.contains(p); }
box3fa b3a_extend(box3fa b, const vec3fa &p) { b.extend(p); return b; }
box3fa b3a_inter(const box3fa &a, const box3fa &b) { return intersectionOf(a, b); }
bool  b3a_disjoint(const box3fa &a, const box3fa &b) { return disjoint(a, b); }
bool  b3a_touching(const box3fa &a, const box3fa &b) { return touchingOrOverlapping(a, b); }
// box4f
bool  b4_contains(const box4f &b, const vec4f &p) { return b.contains(p); }
box4f b4_extend(box4f b, const vec4f &p) { b.extend(p); return b; }
box4f b4_inter(const box4f &a, const box4f &b) { return intersectionOf(a, b); }
bool  b4_disjoint(const box4f &a, const box4f &b) { return disjoint(a, b); }
vec4f b4_clamp(const box4f &b, const vec4f &p) { return b.clamp(p); }
bool  b4_empty(const box4f &b) { return b.empty(); }
// affine image of a box, ray/box
vec3f xfm_point(const AffineSpace3f &m, const vec3f &p) { return xfmPoint(m, p); }
box3f xfm_bounds(const AffineSpace3f &m, const box3f &b) { return xfmBounds(m, b); }
range1f ray_box3(const vec3f &org, const vec3f &dir, const box3f &b, const range1f &tr) { return intersectRayBox(org, dir, b, tr); }
range1f ray_box2(const vec2f &org, const vec2f &dir, const box2f &b, const range1f &tr) { return intersectRayBox(org, dir, b, tr); }
}}}
